#!/usr/bin/env python3
"""Sensitivity self-test: a catalogue of property-breaking edits, each applied
to a scratch copy of /repo (never to /repo itself), optionally run through the
pinned test suite, then through the quick tier of the owning check, which must
exit 1. The unmodified copy must exit 0.

usage: mutants.py [--suite] [--only SUBSTR] [--tier quick]
"""
import json, os, shutil, subprocess, sys, time

VERIF = os.path.dirname(os.path.dirname(os.path.abspath(__file__)))
# the checks run here are against broken copies: their evidence and replay files must not land in /verif
SELFTEST_ROOT = "/var/tmp/vs-selftest-root"
os.makedirs(SELFTEST_ROOT, exist_ok=True)
if os.path.exists(os.path.join(VERIF, "known_findings.json")):
    shutil.copy(os.path.join(VERIF, "known_findings.json"), SELFTEST_ROOT)
os.environ["VERIF_ROOT_OVERRIDE"] = SELFTEST_ROOT
REPO = "/repo"
BASE = os.environ.get("VERIF_SCRATCH", "/var/tmp") + "/vs-selftest"
GO = "/root/go/pkg/mod/golang.org/toolchain@v0.0.1-go1.25.0.linux-amd64/bin/go"

# (property, name, file, old, new [, count])
M = []
def mut(prop, name, file, old, new, count=1, expect=1):
    e = dict(file=file, old=old, new=new, count=count)
    for m in M:
        if m["name"] == name:
            m["edits"].append(e)
            return
    M.append(dict(prop=prop, name=name, edits=[e], expect=expect))

def harmless(prop, name, file, old, new, count=1):
    """a property-PRESERVING change: the check must stay silent (exit 0)"""
    mut(prop, name, file, old, new, count, expect=0)

exec(open(os.path.join(os.path.dirname(os.path.abspath(__file__)), "catalogue.py")).read())

def fresh_copy(dst):
    shutil.rmtree(dst, ignore_errors=True)
    os.makedirs(dst)
    for f in ("go.mod", "go.sum"):
        shutil.copy(os.path.join(REPO, f), dst)
    for d in ("src", "cmd", "testdata"):
        if os.path.isdir(os.path.join(REPO, d)):
            shutil.copytree(os.path.join(REPO, d), os.path.join(dst, d))

def apply(dst, mm):
    for m in mm["edits"]:
        p = os.path.join(dst, m["file"])
        s = open(p).read()
        if s.count(m["old"]) < 1:
            raise SystemExit(f"mutant {mm['name']}: pattern not found in {m['file']}")
        if m["count"] == 0:
            s = s.replace(m["old"], m["new"])
        else:
            s = s.replace(m["old"], m["new"], m["count"])
        open(p, "w").write(s)

def run_check(dst, prop, tier, tag):
    env = dict(os.environ, VERIF_REPO=dst, VERIF_SCRATCH=BASE + "/scratch-" + tag, VERIF_ROOT_OVERRIDE=SELFTEST_ROOT)
    os.makedirs(env["VERIF_SCRATCH"], exist_ok=True)
    t0 = time.time()
    r = subprocess.run([os.path.join(VERIF, "check"), prop, tier], env=env, capture_output=True, text=True, errors="replace")
    return r.returncode, r.stdout + r.stderr, time.time() - t0

def run_suite(dst):
    env = dict(os.environ, GOFLAGS="-mod=mod", GOPROXY="off", GOTOOLCHAIN="local")
    r = subprocess.run([GO, "test", "-vet=off", "-count=1", "./..."], cwd=dst, env=env, capture_output=True, text=True, errors="replace")
    return r.returncode == 0, r.stdout + r.stderr

def main():
    args = sys.argv[1:]
    suite = "--suite" in args
    only = args[args.index("--only") + 1] if "--only" in args else ""
    tier = args[args.index("--tier") + 1] if "--tier" in args else "quick"
    results = []
    os.makedirs(BASE, exist_ok=True)
    props = sorted({m["prop"] for m in M if only in m["name"] or only == m["prop"]})
    if "--no-baseline" not in args:
        for prop in props:
            dst = BASE + "/repo-base"
            fresh_copy(dst)
            rc, out, dt = run_check(dst, prop, tier, "base")
            print(f"baseline {prop}: exit {rc} ({dt:.0f}s)", flush=True)
            results.append(dict(prop=prop, name="(unmodified)", exit=rc, expected=0, ok=rc == 0))
            if rc != 0:
                print(out[-3000:])
    for m in M:
        if only and only not in m["name"] and only != m["prop"]:
            continue
        dst = BASE + "/repo-mut"
        fresh_copy(dst)
        apply(dst, m)
        suite_ok = None
        if suite:
            suite_ok, sout = run_suite(dst)
            if not suite_ok:
                tail = [l for l in sout.splitlines() if "FAIL" in l or "cannot" in l or "undefined" in l][:5]
                print(f"   suite FAILS for {m['name']}: {tail}")
        rc, out, dt = run_check(dst, m["prop"], tier, "mut")
        classes = [l for l in out.splitlines() if l.startswith("violation:")]
        ok = rc == m["expect"]
        word = ("CAUGHT " if ok else "MISSED ") if m["expect"] == 1 else ("SILENT " if ok else "FALSE-ALARM ")
        print(f"{word} {m['prop']} {m['name']}: exit {rc} ({dt:.0f}s) suite_passes={suite_ok} {classes[:3]}", flush=True)
        if rc not in (0, 1) or (m["expect"] == 0 and rc != 0):
            print(out[-2500:])
        results.append(dict(prop=m["prop"], name=m["name"], exit=rc, expected=m["expect"], ok=ok, suite_passes=suite_ok, classes=classes[:4]))
    shutil.rmtree(BASE, ignore_errors=True)
    out = os.path.join(VERIF, "selftest", "last_result.json")
    json.dump(results, open(out, "w"), indent=1)
    bad = [r for r in results if not r["ok"]]
    print(f"{len(results) - len(bad)}/{len(results)} as expected")
    sys.exit(1 if bad else 0)

main()
