#!/usr/bin/env python3
"""Cross-property silence test: confirm a sub-agent's change that breaks a property this
framework does NOT claim (C01-C05, C07, ...), then run ALL FOUR claimed checks against it.
The expected result is silence (exit 0) unless the change also breaks a claimed property,
which is judged by hand and recorded in meta.json ("judgement").

usage: crossprop.py <agent-worktree> <k> <new-id> [--tier quick] [--harmless]

--harmless: the change is meant to PRESERVE a claimed property (no demo); kept under harmless/<id>/,
all four checks must exit 0.

1. fresh worktree of /repo HEAD under /tmp; copy the agent's seeded/ dir in
2. demo on the clean tree must pass
3. git apply patch.diff; go build; full pinned suite must pass
4. demo with the patch must fail
5. ./check <property> quick against the patched tree (VERIF_REPO) -> caught?
6. store /verif/seeded/<new-id>/{patch.diff, demo, meta.json}; remove the worktree
"""
import json, os, re, shutil, subprocess, sys, time

VERIF = os.path.dirname(os.path.dirname(os.path.abspath(__file__)))
# the checks run here are against broken copies: their evidence and replay files must not land in /verif
SELFTEST_ROOT = "/var/tmp/vs-selftest-root"
os.makedirs(SELFTEST_ROOT, exist_ok=True)
if os.path.exists(os.path.join(VERIF, "known_findings.json")):
    shutil.copy(os.path.join(VERIF, "known_findings.json"), SELFTEST_ROOT)
os.environ["VERIF_ROOT_OVERRIDE"] = SELFTEST_ROOT
GO = "/root/go/pkg/mod/golang.org/toolchain@v0.0.1-go1.25.0.linux-amd64/bin/go"
ENV = dict(os.environ, GOFLAGS="-mod=mod", GOPROXY="off", GOTOOLCHAIN="local", GO=GO,
           PATH=os.path.dirname(GO) + ":" + os.environ["PATH"])

def sh(cmd, cwd=None, env=ENV, timeout=3600):
    r = subprocess.run(["bash", "-c", cmd], cwd=cwd, env=env, capture_output=True, text=True, errors="replace", timeout=timeout)
    return r.returncode, r.stdout + r.stderr

def main():
    agent_wt, k, newid = sys.argv[1], sys.argv[2], sys.argv[3]
    tier = sys.argv[sys.argv.index("--tier") + 1] if "--tier" in sys.argv else "quick"
    src = os.path.join(agent_wt, "seeded", k)
    meta = json.load(open(os.path.join(src, "meta.json")))
    prop = meta["property"]
    wt = "/tmp/vfy-" + newid
    sh(f"git -C /repo worktree remove --force {wt}")
    shutil.rmtree(wt, ignore_errors=True)
    rc, out = sh(f"git -C /repo worktree add --detach {wt} HEAD")
    assert rc == 0, out
    log = {}
    try:
        shutil.copytree(os.path.join(agent_wt, "seeded"), os.path.join(wt, "seeded"))
        harmless = "--harmless" in sys.argv  # a property-PRESERVING change: no demo, the checks must stay silent
        demo = meta.get("demo_cmd", "true").replace(agent_wt, wt)
        # normalise: the patch is applied / reverted by this script, prose is not shell
        demo = re.sub(r"git apply [^;&]*[;&]+", "", demo)
        demo = re.sub(r";?\s*git checkout -- src\b", "", demo)
        demo = re.sub(r"^\(a\)\s*", "", demo)
        demo = re.split(r"\s{2,}\(|\s+#", demo)[0]
        demo = demo.replace("<go1.25.0 toolchain>/bin/go", GO).replace("<go1.25>/bin/go", GO)
        log["demo_cmd_used"] = demo.replace(wt, "<worktree>")
        def run_demo():
            rc, out = sh(demo, cwd=wt)
            sh("git clean -fdq src", cwd=wt)
            failed = bool(re.search(r"^(--- FAIL|FAIL)\b", out, re.M)) or "DEMO FAIL" in out or "panic:" in out
            passed = (bool(re.search(r"^ok\s", out, re.M)) or "PASS" in out or "DEMO PASS" in out) and not failed
            if not failed and not passed:
                failed = rc != 0
                passed = rc == 0
            return passed, failed, out
        p, f, out = run_demo()
        log["demo_on_clean_tree"] = "pass" if p else "FAIL"
        if not p:
            print("demo does not pass on the clean tree:\n", out[-2000:])
        rc, out = sh(f"git apply seeded/{k}/patch.diff && git add -A src", cwd=wt)  # staged: files the patch adds survive the clean-up of demo files
        log["patch_applies"] = rc == 0
        if rc != 0:
            print("patch does not apply:", out)
        rc, out = sh(f"{GO} build ./src/... ./cmd/... && {GO} test -vet=off -count=1 ./src/... ./cmd/...", cwd=wt)  # the repository proper: the copied seeded/ directory may hold stray .go demo files
        bad = [l for l in out.splitlines() if l.startswith("FAIL") or l.startswith("---") or "cannot" in l]
        log["build_and_pinned_suite_with_patch"] = "ok" if rc == 0 and not bad else "FAILS: " + "; ".join(bad[:5])
        p2, f2, out2 = run_demo()
        log["demo_with_patch"] = "fails (as it should)" if f2 else "PASSES (does not discriminate)"
        demo_excerpt = "\n".join([l for l in out2.splitlines() if "FAIL" in l or "Error" in l or "caret" in l][:8])
        confirmed = log["demo_on_clean_tree"] == "pass" and log["patch_applies"] and log["build_and_pinned_suite_with_patch"] == "ok" and f2
        if harmless:
            for k_ in ("demo_cmd_used", "demo_on_clean_tree", "demo_with_patch"):
                log.pop(k_, None)
            confirmed = log["patch_applies"] and log["build_and_pinned_suite_with_patch"] == "ok"
        log["confirmed"] = confirmed
        # all four claimed checks against the patched tree, side by side
        from concurrent.futures import ThreadPoolExecutor
        def one(pid):
            env = dict(ENV, VERIF_REPO=wt, VERIF_SCRATCH="/var/tmp/vs-cross-" + newid + "-" + pid)
            os.makedirs(env["VERIF_SCRATCH"], exist_ok=True)
            t0 = time.time()
            rc, cout = sh(f"{VERIF}/check {pid} {tier}", env=env)
            shutil.rmtree(env["VERIF_SCRATCH"], ignore_errors=True)
            classes = [l[:300] for l in cout.splitlines() if l.startswith("violation:")][:4]
            if rc not in (0, 1):
                print(pid, "INFRA:", cout[-2000:])
            return pid, {"exit": rc, "wall_s": round(time.time() - t0), "violation_classes": classes}
        with ThreadPoolExecutor(4) as ex:
            res = dict(ex.map(one, ["C06", "C11", "C16", "C19"]))
        log["checks"] = res
        caught = [p for p, r in res.items() if r["exit"] == 1]
        print(f"{newid} ({prop}): confirmed={confirmed} alarms={caught} " + " ".join(f"{p}={r['exit']}" for p, r in res.items()))
        for p in caught:
            print("   ", p, res[p]["violation_classes"][:2])
        if confirmed or "--keep-anyway" in sys.argv:
            dst = os.path.join(VERIF, "harmless" if harmless else "seeded_other", newid)
            shutil.rmtree(dst, ignore_errors=True)
            os.makedirs(dst)
            for fn in os.listdir(src):
                a = os.path.join(src, fn)
                if os.path.isdir(a):
                    shutil.copytree(a, os.path.join(dst, fn))
                else:
                    shutil.copy(a, dst)
            meta_out = dict(meta)
            meta_out["origin"] = f"sub-agent, worktree {agent_wt}, change {k}"
            if "demo_cmd" in meta:
                meta_out["demo_cmd"] = meta["demo_cmd"].replace(agent_wt, "<worktree>")
            meta_out["confirmation"] = log
            meta_out["alarms"] = caught
            meta_out["expected"] = "silence from C06, C11, C16, C19 unless the change also breaks one of them"
            json.dump(meta_out, open(os.path.join(dst, "meta.json"), "w"), indent=1)
        else:
            print("NOT kept:", json.dumps(log, indent=1))
    finally:
        sh(f"git -C /repo worktree remove --force {wt}")
        shutil.rmtree(wt, ignore_errors=True)

main()
