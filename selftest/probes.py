#!/usr/bin/env python3
"""Reach self-test: after the quick tiers have run, every probe and fault
counter listed here must be non-zero in the evidence files - a probe stuck at
zero means the workload or the fault mix no longer reaches that condition.
usage: probes.py   (reads /verif/evidence/*.json; exit 1 if a probe is at zero)"""
import json, os, sys
VERIF = os.path.dirname(os.path.dirname(os.path.abspath(__file__)))
NEED = {
 "C19": ["faults_fired.eio", "faults_fired.enoent", "faults_fired.short_read", "faults_fired.empty_read", "faults_fired.refused_unknown_file",
         "faults_fired.eio_in_pipeline", "faults_fired.short_in_pipeline", "faults_fired.edited_in_pipeline",
         "probes.caret_checked.long-line-head", "probes.caret_checked.long-line-middle", "probes.caret_checked.long-line-tail", "probes.caret_checked.long-line-near-limit",
         "probes.caret_checked_after_tab", "probes.caret_checked_after_multibyte", "probes.report_served_from_cache", "probes.compared_with_fresh_reporter",
         "probes.excerpt_after_transient_fault", "probes.no_excerpt_after_failed_read", "probes.short_file_no_excerpt", "pipeline_leg.diagnostics_judged"],
 "C16": ["operations.add", "operations.global", "start_states.nil", "start_states.zero-after-global-nil", "order_permutation_replays", "concurrent_phases",
         "probes.readers_interleaved_inside_Contains", "queries_expected_suppressed", "distinct_small_scope_histories", "race_oracle_runs"],
 "C11": ["executions_with_preemption", "baseline_executions", "drivers.checker", "drivers.vet", "strategies.pct", "strategies.round-robin", "strategies.random-walk",
         "probes.switch_between_two_walks", "race_oracle_worlds", "outcome_comparisons"],
 "C06": ["drivers.checker", "drivers.vet", "transports.share", "transports.gob", "transports.files", "faults_fired.partial_run_set", "faults_fired.unit_executed_twice",
         "faults_fired.permuted_parse_order", "world_variants.strip", "world_variants.saturate", "world_variants.bodies", "world_variants.unrelated", "world_variants.sibling",
         "sibling_statement_comparisons", "pkgo_expectation_checks", "probes.cross_package_statement_reported", "probes.pkgo_expected_nonempty",
         "probes.external_test_package_outcome_compared_nonempty", "real_driver_legs.worlds", "real_driver_legs.go_vet_runs", "real_driver_legs.gogreement_binary_runs",
         "real_driver_legs.checker_Analyze_in_process_runs", "facts.gob_roundtrips", "facts.import_hits", "vet_units_executed"],
}
bad = 0
for prop, keys in NEED.items():
    cov = json.load(open(os.path.join(VERIF, "evidence", prop + ".json")))["coverage"]
    for k in keys:
        v = cov
        for part in k.split(".", 1) if not k.startswith("probes.caret_checked.") else ["probes", k[len("probes."):]]:
            v = v.get(part, 0) if isinstance(v, dict) else 0
        if not v:
            print(f"PROBE AT ZERO: {prop} {k}")
            bad += 1
print(f"{sum(len(v) for v in NEED.values()) - bad} probes reached, {bad} at zero")
sys.exit(1 if bad else 0)
