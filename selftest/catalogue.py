# ---- C16 ---------------------------------------------------------------
IS = "src/util/ignoreset.go"
mut("C16", "c16-range-end-exclusive", IS, "if pos >= marker.StartPos && pos <= marker.EndPos {", "if pos >= marker.StartPos && pos < marker.EndPos {")
mut("C16", "c16-range-start-exclusive", IS, "if pos >= marker.StartPos && pos <= marker.EndPos {", "if pos > marker.StartPos && pos <= marker.EndPos {")
mut("C16", "c16-fastreject-max-off-by-one", IS, "pos < s.MinPos || pos > s.MaxPos", "pos < s.MinPos || pos >= s.MaxPos")
mut("C16", "c16-fastreject-min-off-by-one", IS, "pos < s.MinPos || pos > s.MaxPos", "pos <= s.MinPos || pos > s.MaxPos")
mut("C16", "c16-maxpos-from-startpos", IS, "if s.MaxPos == token.NoPos || marker.EndPos > s.MaxPos {\n\t\ts.MaxPos = marker.EndPos", "if s.MaxPos == token.NoPos || marker.StartPos > s.MaxPos {\n\t\ts.MaxPos = marker.StartPos")
mut("C16", "c16-maxpos-only-first", IS, "if s.MaxPos == token.NoPos || marker.EndPos > s.MaxPos {", "if s.MaxPos == token.NoPos {")
mut("C16", "c16-hierarchy-without-category", "src/codes/codes.go", "result[code.ID] = []string{\"ALL\", category, code.ID}", "result[code.ID] = []string{\"ALL\", code.ID}\n\t\t\t_ = category")
mut("C16", "c16-category-query-loses-ALL", "src/codes/codes.go", "result[category] = []string{\"ALL\", category}", "result[category] = []string{category}")
mut("C16", "c16-global-only-when-markers", IS, "if len(s.moduleIgnores) != 0 {", "if len(s.moduleIgnores) != 0 && len(s.Markers) != 0 {")
mut("C16", "c16-fastreject-before-global", IS,
    "\tif len(s.moduleIgnores) != 0 {\n\t\tfor checkCode := range codes.GetCodesForCheck(code) {\n\t\t\tif s.moduleIgnores != nil && slices.Contains(s.moduleIgnores, checkCode) {\n\t\t\t\treturn true\n\t\t\t}\n\t\t}\n\t}\n\n\t// Quick range check: if pos is outside all markers, return false\n\tif s.MinPos == token.NoPos || pos < s.MinPos || pos > s.MaxPos {\n\t\treturn false\n\t}\n",
    "\t// Quick range check: if pos is outside all markers, return false\n\tif s.MinPos == token.NoPos || pos < s.MinPos || pos > s.MaxPos {\n\t\treturn false\n\t}\n\n\tif len(s.moduleIgnores) != 0 {\n\t\tfor checkCode := range codes.GetCodesForCheck(code) {\n\t\t\tif s.moduleIgnores != nil && slices.Contains(s.moduleIgnores, checkCode) {\n\t\t\t\treturn true\n\t\t\t}\n\t\t}\n\t}\n")
mut("C16", "c16-index-only-first-token", IS, "for _, code := range marker.Codes {\n\t\ts.CodeIndex[code] = append(s.CodeIndex[code], index)\n\t}", "for _, code := range marker.Codes[:1] {\n\t\ts.CodeIndex[code] = append(s.CodeIndex[code], index)\n\t}")
mut("C16", "c16-index-keeps-last-marker-only", IS, "s.CodeIndex[code] = append(s.CodeIndex[code], index)", "s.CodeIndex[code] = []int{index}")
mut("C16", "c16-module-ignores-replaced-not-appended", IS, "s.moduleIgnores = append(s.moduleIgnores, codes...)", "s.moduleIgnores = codes")
# a statistics counter written by concurrent readers: C16 (the answers) still holds, C11 (no data races) does not
mut("C11", "c11-benign-racy-counter-in-IgnoreSet-Contains", IS, "func (s *IgnoreSet) Contains(code string, pos token.Pos) bool {\n\t// Nil safety: return false if receiver is nil or uninitialized\n\tif s == nil || !s.Initialized {\n\t\treturn false\n\t}\n",
    "func (s *IgnoreSet) Contains(code string, pos token.Pos) bool {\n\t// Nil safety: return false if receiver is nil or uninitialized\n\tif s == nil || !s.Initialized {\n\t\treturn false\n\t}\n\ts.lookups++\n")
mut("C11", "c11-benign-racy-counter-in-IgnoreSet-Contains", IS, "\tmoduleIgnores []string\n", "\tmoduleIgnores []string\n\tlookups       int\n")

# ---- C19 ---------------------------------------------------------------
RP = "src/reporting/reporter.go"
mut("C19", "c19-revert-head-boundary", RP, "if pos0 < maxLen-3 {", "if pos0 <= maxLen-3 {", 0)
mut("C19", "c19-revert-head-boundary-display-only", RP, "\t// If position fits in first part\n\tif pos0 < maxLen-3 {", "\t// If position fits in first part\n\tif pos0 <= maxLen-3 {")
mut("C19", "c19-revert-scanner-buffer", RP, "\tscanner.Buffer(nil, len(content)+1)\n", "")
mut("C19", "c19-revert-short-file", RP, "\tif lineNum > len(lines) {\n\t\treturn sourceLines{}\n\t}\n", "")
# not in the catalogue on purpose: caching nil after a failed read ("negative caching") keeps giving
# "no excerpt" for that reporter and file - which the property allows for unreadable files.
mut("C19", "c19-cache-not-keyed-by-file", RP, "r.lineCache[filename] = lines\n\treturn lines", "r.lineCache[\"\"] = lines\n\treturn lines")
mut("C19", "c19-cache-not-keyed-by-file", RP, "if lines, exists := r.lineCache[filename]; exists {", "if lines, exists := r.lineCache[\"\"]; exists {")
# showing one context line instead of two is NOT a violation (the amount of context is not part of the property);
# dropping the diagnostic's own line is:
mut("C19", "c19-window-ends-before-target", RP, "end := lineNum + after - 1 // Convert to 0-based index", "end := lineNum + after - 3 // Convert to 0-based index")
mut("C19", "c19-content-shifted-by-one-line", RP, "result.content = append(result.content, lines[i])", "result.content = append(result.content, lines[max(i-1, 0)])")
mut("C19", "c19-line-number-label-off-by-one", RP, "result.lineNumbers = append(result.lineNumbers, i+1)", "result.lineNumbers = append(result.lineNumbers, i)")
mut("C19", "c19-middle-caret-from-untruncated-column", RP, "\t// Position is in middle\n\tbefore := (maxLen - 3) / 2\n\treturn 4 + before", "\t// Position is in middle\n\treturn originalPos")
mut("C19", "c19-tail-regime-caret-off-by-one", RP, "return 4 + (pos0 - (len(originalLine) - maxLen + 3))", "return 3 + (pos0 - (len(originalLine) - maxLen + 3))")
mut("C19", "c19-tail-boundary", RP, "if pos0 >= len(s)-maxLen+3 {\n\t\treturn \"...\" + s[len(s)-maxLen+3:]", "if pos0 > len(s)-maxLen+3 {\n\t\treturn \"...\" + s[len(s)-maxLen+3:]")
mut("C19", "c19-middle-window-shifted", RP, "start := pos0 - before\n", "start := pos0 - before + 1\n")
mut("C19", "c19-tab-prefix-dropped", RP, "if i-1 < len(truncatedLine) && truncatedLine[i-1] == '\\t' {", "if false && i-1 < len(truncatedLine) && truncatedLine[i-1] == '\\t' {")
mut("C19", "c19-tab-from-untruncated-line", RP, "if i-1 < len(truncatedLine) && truncatedLine[i-1] == '\\t' {", "if i-1 < len(line) && line[i-1] == '\\t' {")
# not in the catalogue: ignoring the read error ends up as "no lines -> no excerpt", i.e. still degrades as the property asks
mut("C19", "c19-no-truncation-of-context-lines", RP, "truncatedLine := truncateString(line, MaxLineLength, position.Column)", "truncatedLine := line\n\t\t\tif lineNum == position.Line {\n\t\t\t\ttruncatedLine = truncateString(line, MaxLineLength, position.Column)\n\t\t\t}")
mut("C19", "c19-caret-under-every-line", RP, "if lineNum == position.Line {\n\t\t\t\tbuilder.WriteString(strings.Repeat(\" \", lineNumWidth))", "if lineNum <= position.Line {\n\t\t\t\tbuilder.WriteString(strings.Repeat(\" \", lineNumWidth))")
mut("C19", "c19-end-clamp-removed-panics", RP, "\tif end >= len(lines) {\n\t\tend = len(lines) - 1\n\t}\n", "")
mut("C19", "c19-read-error-shows-stale-other-file", RP, "\tif err != nil {\n\t\treturn nil\n\t}", "\tif err != nil {\n\t\tfor _, l := range r.lineCache {\n\t\t\treturn l\n\t\t}\n\t\treturn nil\n\t}")

# ---- C11 ---------------------------------------------------------------
CC = "src/constructor/checker.go"
mut("C11", "c11-currentFunction-hoisted-to-package-level", CC, "\tfor file := range filesToCheck {\n\t\tcurrentFunction := \"\"\n", "\tfor file := range filesToCheck {\n\t\tcurrentFunction = \"\"\n")
mut("C11", "c11-currentFunction-hoisted-to-package-level", CC, "func CheckConstructor(", "var currentFunction string\n\nfunc CheckConstructor(")
TC = "src/testonly/checker.go"
mut("C11", "c11-reportedTypes-hoisted-to-package-level", TC, "\t\treportedTypes := make(map[string]bool)\n", "\t\treportedTypes = make(map[string]bool)\n")
mut("C11", "c11-reportedTypes-hoisted-to-package-level", TC, "// CheckTestOnly checks that", "var reportedTypes map[string]bool\n\n// CheckTestOnly checks that")
IX = "src/indexing/indexing.go"
mut("C11", "c11-index-memoised-per-analyzer", IX,
    "func BuildImmutableTypesIndex[T annotations.AnnotationWrapper](pass *analysis.Pass, packageAnnotations *annotations.PackageAnnotations) util.TypesMap {\n\tresult := util.NewTypesMap()\n",
    "var immutableIndexCache util.TypesMap\n\nfunc BuildImmutableTypesIndex[T annotations.AnnotationWrapper](pass *analysis.Pass, packageAnnotations *annotations.PackageAnnotations) util.TypesMap {\n\tif immutableIndexCache != nil {\n\t\treturn immutableIndexCache\n\t}\n\tresult := util.NewTypesMap()\n\tdefer func() { immutableIndexCache = result }()\n")
mut("C11", "c11-importer-reverses-imported-allowlist-in-place", IX,
    "\t\tfor _, annot := range ann.PackageOnlyAnnotations {\n\t\t\tswitch annot.Kind {",
    "\t\tfor _, annot := range ann.PackageOnlyAnnotations {\n\t\t\tslices.Reverse(annot.AllowedPackages)\n\t\t\tswitch annot.Kind {")
mut("C11", "c11-importer-reverses-imported-allowlist-in-place", IX, "import (\n\t\"go/types\"\n\t\"iter\"\n", "import (\n\t\"go/types\"\n\t\"iter\"\n\t\"slices\"\n")
AN = "src/annotations/annotation.go"
mut("C11", "c11-ahocorasick-Match-instead-of-Contains", AN, "if !matcher.Contains([]byte(text)) {", "if len(matcher.Match([]byte(text))) == 0 {", 0)
PR = "src/packageonly/reporting.go"
mut("C11", "c11-allowed-list-via-map-range", PR,
    "\tcase codes.PackageOnlyFunctionCall:\n\t\treturn fmt.Sprintf(\"%s function is @packageonly and cannot be used from %s. Allowed packages: %s\",\n\t\t\tv.ItemName, v.CurrentPkgPath, fmt.Sprintf(\"%v\", v.AllowedPackages))",
    "\tcase codes.PackageOnlyFunctionCall:\n\t\tset := map[string]bool{}\n\t\tfor _, p := range v.AllowedPackages {\n\t\t\tset[p] = true\n\t\t}\n\t\tvar uniq []string\n\t\tfor p := range set {\n\t\t\tuniq = append(uniq, p)\n\t\t}\n\t\treturn fmt.Sprintf(\"%s function is @packageonly and cannot be used from %s. Allowed packages: %s\",\n\t\t\tv.ItemName, v.CurrentPkgPath, fmt.Sprintf(\"%v\", uniq))")
AZ = "src/analyzer/analyzer.go"
mut("C11", "c11-config-once-replaced-by-flag", AZ, "\tconfigOnce.Do(func() {", "\tfunc() {\n\t\tif configLoaded {\n\t\t\treturn\n\t\t}\n\t\tconfigLoaded = true")
mut("C11", "c11-config-once-replaced-by-flag", AZ, "\t\tcachedConfig = config.ParseFlagsFromFlagSet(&pass.Analyzer.Flags)\n\t})", "\t\tcachedConfig = config.ParseFlagsFromFlagSet(&pass.Analyzer.Flags)\n\t}()")
mut("C11", "c11-config-once-replaced-by-flag", AZ, "\tconfigOnce   sync.Once\n", "\tconfigOnce   sync.Once\n\tconfigLoaded bool\n")
mut("C11", "c11-config-once-replaced-by-flag", AZ, "func runConfig(", "var _ = &configOnce\n\nfunc runConfig(")
# (swapping TestonlyAnnotations inside the testonly checker is NOT a break: nobody reads those elements concurrently;
#  sorting an imported allow-list in place is not one either: the declaring package's own action sorted it first, ordered by the dependency edge)
mut("C11", "c11-immutable-checker-reverses-shared-constructor-annotations", AZ,
    "\t// Check immutability violations\n",
    "\t// newest annotation first (in place)\n\tfor i, j := 0, len(localAnnotations.ConstructorAnnotations)-1; i < j; i, j = i+1, j-1 {\n\t\tlocalAnnotations.ConstructorAnnotations[i], localAnnotations.ConstructorAnnotations[j] = localAnnotations.ConstructorAnnotations[j], localAnnotations.ConstructorAnnotations[i]\n\t}\n\t// Check immutability violations\n")
mut("C11", "c11-shared-violation-buffer", "src/immutable/checker.go",
    "\tvar violations []ImmutableViolation\n\n\t// Build indices for efficient lookup during AST traversal",
    "\tviolations := violationBuf[:0]\n\tdefer func() { violationBuf = violations }()\n\n\t// Build indices for efficient lookup during AST traversal")
mut("C11", "c11-shared-violation-buffer", "src/immutable/checker.go", "func CheckImmutable(", "var violationBuf []ImmutableViolation\n\nfunc CheckImmutable(")

# ---- C06 ---------------------------------------------------------------
mut("C06", "c06-mutable-fieldname-unexported", AN, "\tFieldName string // \"MutableField\"", "\tfieldName string // \"MutableField\"")
mut("C06", "c06-mutable-fieldname-unexported", AN, "\t\tFieldName: fieldName,", "\t\tfieldName: fieldName,")
mut("C06", "c06-mutable-fieldname-unexported", AN, "// MutableAnnotation\n// @immutable", "func (m MutableAnnotation) Field() string { return m.fieldName }\n\n// MutableAnnotation\n// @immutable")
mut("C06", "c06-mutable-fieldname-unexported", IX, "result.Add(pkg.Path(), annot.FieldName, annot.OnType)", "result.Add(pkg.Path(), annot.Field(), annot.OnType)")
mut("C06", "c06-packageonly-unexported-cache-preferred", AN, "\tAllowedPackages []string\n}", "\tAllowedPackages []string\n\n\tallowedSet []string // deduplicated, preferred by the index when present\n}")
mut("C06", "c06-packageonly-unexported-cache-preferred", AN, "\t\tAllowedPackages: allowedPackages,\n\t}", "\t\tAllowedPackages: allowedPackages[:1],\n\t\tallowedSet:      allowedPackages,\n\t}")
mut("C06", "c06-packageonly-unexported-cache-preferred", AN, "// TypeQuery represents what type we're looking for", "// Allowed returns the allow-list of the annotation.\nfunc (p PackageOnlyAnnotation) Allowed() []string {\n\tif p.allowedSet != nil {\n\t\treturn p.allowedSet\n\t}\n\treturn p.AllowedPackages\n}\n\n// TypeQuery represents what type we're looking for")
mut("C06", "c06-packageonly-unexported-cache-preferred", IX, "range annot.AllowedPackages {", "range annot.Allowed() {", 0)
mut("C06", "c06-mutable-index-skips-imports", IX, "\tfor pkg, ann := range iterOverPackages[T](pass, packageAnnotations) {\n\t\tfor _, annot := range ann.MutableAnnotations {", "\tfor pkg, ann := range iterOverPackages[T](pass, packageAnnotations) {\n\t\tif pkg != pass.Pkg {\n\t\t\tcontinue\n\t\t}\n\t\tfor _, annot := range ann.MutableAnnotations {")
# (pass.Fset.File(annot.OnTypePos) == nil as a "staleness" test is NOT observable: the export-data importer fills the
#  local FileSet with 64 KiB fake files, so a foreign Pos always lands in some file - in the real vet driver too)
mut("C06", "c06-imported-annotation-position-resolved-in-local-fileset", IX, "\t\tfor _, annot := range ann.ImmutableAnnotations {\n\t\t\tresult.Add(pkg.Path(), annot.OnType)", "\t\tfor _, annot := range ann.ImmutableAnnotations {\n\t\t\tif name := pass.Fset.Position(annot.OnTypePos).Filename; len(name) > 8 && name[len(name)-8:] == \"_test.go\" {\n\t\t\t\tcontinue // declared in a test file\n\t\t\t}\n\t\t\tresult.Add(pkg.Path(), annot.OnType)")
mut("C06", "c06-all-package-facts-instead-of-direct-imports", IX,
    "\t\t\tfor _, imp := range pass.Pkg.Imports() {\n\t\t\t\tfact := zero.CreateEmpty()\n\t\t\t\tif pass.ImportPackageFact(imp, fact) {\n\t\t\t\t\tif !yield(imp, fact.GetAnnotations()) {\n\t\t\t\t\t\treturn\n\t\t\t\t\t}\n\t\t\t\t}\n\t\t\t}",
    "\t\t\t_ = zero\n\t\t\tfor _, pf := range pass.AllPackageFacts() {\n\t\t\t\tw, ok := pf.Fact.(T)\n\t\t\t\tif !ok || pf.Package == pass.Pkg {\n\t\t\t\t\tcontinue\n\t\t\t\t}\n\t\t\t\tif !yield(pf.Package, w.GetAnnotations()) {\n\t\t\t\t\treturn\n\t\t\t\t}\n\t\t\t}")
mut("C06", "c06-constructor-fact-exported-after-early-return", AZ,
    "\t// Export facts before isProjectPackage check so dependencies can use them\n\tfact := annotations.ConstructorCheckerFact(localAnnotations)\n\tpass.ExportPackageFact(&fact)\n",
    "\tif len(localAnnotations.ImmutableAnnotations) == 0 && len(localAnnotations.TestonlyAnnotations) == 0 {\n\t\treturn nil, nil // nothing annotated here\n\t}\n\tfact := annotations.ConstructorCheckerFact(localAnnotations)\n\tpass.ExportPackageFact(&fact)\n")
mut("C06", "c06-gob-hostile-interface-field", AN, "\tConstructorNames []string // [\"New\", \"Create\"]\n}", "\tConstructorNames []string // [\"New\", \"Create\"]\n\n\tOrigin interface{} // where the annotation came from\n}")
mut("C06", "c06-gob-hostile-interface-field", AN, "\t\tConstructorNames: names,\n\t}", "\t\tConstructorNames: names,\n\t\tOrigin:           struct{ Line string }{commentText},\n\t}")
mut("C06", "c06-testonly-receiver-lost-in-transport", AN, "\t// Receiver type (only for methods, empty otherwise)\n\t// Example: \"MyStruct\" for method receivers\n\tReceiverType string\n}\n\n// MutableAnnotation", "\t// Receiver type (only for methods, empty otherwise)\n\t// Example: \"MyStruct\" for method receivers\n\tReceiverType string `json:\"-\"`\n\trecv         string\n}\n\n// GobEncode keeps the wire format small.\nfunc (t TestOnlyAnnotation) GobEncode() ([]byte, error) {\n\treturn []byte(fmt.Sprintf(\"%d|%s|%d\", t.Kind, t.ObjectName, t.Pos)), nil\n}\n\n// GobDecode is the inverse of GobEncode.\nfunc (t *TestOnlyAnnotation) GobDecode(b []byte) error {\n\tparts := strings.SplitN(string(b), \"|\", 3)\n\tif len(parts) != 3 {\n\t\treturn fmt.Errorf(\"bad testonly annotation\")\n\t}\n\tk, _ := strconv.Atoi(parts[0])\n\tp, _ := strconv.Atoi(parts[2])\n\tt.Kind, t.ObjectName, t.Pos = TestOnlyKind(k), parts[1], token.Pos(p)\n\treturn nil\n}\n\n// MutableAnnotation")
mut("C06", "c06-testonly-receiver-lost-in-transport", AN, "import (\n\t\"go/ast\"\n\t\"go/token\"\n\t\"regexp\"\n\t\"strings\"\n", "import (\n\t\"fmt\"\n\t\"go/ast\"\n\t\"go/token\"\n\t\"regexp\"\n\t\"strconv\"\n\t\"strings\"\n")
mut("C06", "c06-constructor-index-only-local-when-root-has-own", IX, "\tfor pkg, ann := range iterOverPackages[T](pass, packageAnnotations) {\n\t\tfor _, annot := range ann.ConstructorAnnotations {", "\tfor pkg, ann := range iterOverPackages[T](pass, packageAnnotations) {\n\t\tif pkg != pass.Pkg && len(packageAnnotations.ConstructorAnnotations) > 0 {\n\t\t\tcontinue // local annotations take precedence\n\t\t}\n\t\tfor _, annot := range ann.ConstructorAnnotations {")
mut("C06", "c06-packageonly-allowlist-keeps-two-entries-across-packages", IX, "\t\t\tcase annotations.TestOnlyOnFunc:\n\t\t\t\t// Add allowed packages directly to function\n\t\t\t\tfor _, allowedPkg := range annot.AllowedPackages {", "\t\t\tcase annotations.TestOnlyOnFunc:\n\t\t\t\t// Add allowed packages directly to function\n\t\t\t\tfor i, allowedPkg := range annot.AllowedPackages {\n\t\t\t\t\tif pkg != pass.Pkg && i >= 2 {\n\t\t\t\t\t\tbreak\n\t\t\t\t\t}")

# ---- property-PRESERVING changes: the checks must stay silent -----------------------------------
harmless("C19", "ok-c19-more-context-lines", RP, "lines := r.readSourceLines(position.Filename, position.Line, 2, 1) // 2 lines before, 1 line after", "lines := r.readSourceLines(position.Filename, position.Line, 3, 2) // 3 lines before, 2 lines after")
harmless("C19", "ok-c19-box-drawing-gutter", RP, "builder.WriteString(fmt.Sprintf(\"%*d | \", lineNumWidth, lineNum))", "builder.WriteString(fmt.Sprintf(\"%*d │ \", lineNumWidth, lineNum))")
harmless("C19", "ok-c19-box-drawing-gutter", RP, "\t\t\t\tbuilder.WriteString(\" | \")\n", "\t\t\t\tbuilder.WriteString(\" │ \")\n")
harmless("C19", "ok-c19-no-cache-reread-every-time", RP, "\tr.lineCache[filename] = lines\n\treturn lines", "\treturn lines")
harmless("C19", "ok-c19-split-instead-of-scanner", RP,
    "\tvar lines []string\n\tscanner := bufio.NewScanner(strings.NewReader(string(content)))\n\t// Lines may be longer than bufio.MaxScanTokenSize (minified or generated\n\t// code); without a larger limit the scanner silently stops at such a line.\n\tscanner.Buffer(nil, len(content)+1)\n\tfor scanner.Scan() {\n\t\tlines = append(lines, scanner.Text())\n\t}\n",
    "\tvar lines []string\n\t_ = bufio.ScanLines\n\ttext := strings.TrimSuffix(string(content), \"\\n\")\n\tif len(content) > 0 {\n\t\tfor _, l := range strings.Split(text, \"\\n\") {\n\t\t\tlines = append(lines, strings.TrimSuffix(l, \"\\r\"))\n\t\t}\n\t}\n")
harmless("C16", "ok-c16-linear-scan-without-index", IS,
    "\tfor checkCode := range codes.GetCodesForCheck(code) {\n\n\t\tindices, exists := s.CodeIndex[checkCode]\n\t\tif exists {\n\t\t\tfor _, idx := range indices {\n\t\t\t\tmarker := s.Markers[idx]\n\t\t\t\tif pos >= marker.StartPos && pos <= marker.EndPos {\n\t\t\t\t\treturn true\n\t\t\t\t}\n\t\t\t}\n\t\t}\n\t}",
    "\tfor checkCode := range codes.GetCodesForCheck(code) {\n\t\tfor _, marker := range s.Markers {\n\t\t\tif slices.Contains(marker.Codes, checkCode) && pos >= marker.StartPos && pos <= marker.EndPos {\n\t\t\t\treturn true\n\t\t\t}\n\t\t}\n\t}")
harmless("C16", "ok-c16-no-fast-reject", IS, "\tif s.MinPos == token.NoPos || pos < s.MinPos || pos > s.MaxPos {\n\t\treturn false\n\t}\n", "")
harmless("C11", "ok-c11-allowlist-sorted-copy-in-message", PR, "import (\n\t\"fmt\"\n\t\"go/token\"\n", "import (\n\t\"fmt\"\n\t\"go/token\"\n\t\"slices\"\n")
harmless("C11", "ok-c11-allowlist-sorted-copy-in-message", PR, "func (v PackageOnlyViolation) GetMessage() string {\n", "func (v PackageOnlyViolation) GetMessage() string {\n\tv.AllowedPackages = slices.Sorted(slices.Values(v.AllowedPackages))\n")
harmless("C11", "ok-c11-mutex-protected-global-counter", IS, "func (s *IgnoreSet) Contains(code string, pos token.Pos) bool {\n", "var lookupMu sync.Mutex\nvar lookupCount int\n\nfunc (s *IgnoreSet) Contains(code string, pos token.Pos) bool {\n\tlookupMu.Lock()\n\tlookupCount++\n\tlookupMu.Unlock()\n")
harmless("C11", "ok-c11-mutex-protected-global-counter", IS, "import (\n\t\"go/token\"\n\t\"slices\"\n", "import (\n\t\"go/token\"\n\t\"slices\"\n\t\"sync\"\n")
harmless("C06", "ok-c06-correct-cache-keyed-by-types-package", IX,
    "\t\t\tfor _, imp := range pass.Pkg.Imports() {\n\t\t\t\tfact := zero.CreateEmpty()\n\t\t\t\tif pass.ImportPackageFact(imp, fact) {",
    "\t\t\tfor _, imp := range pass.Pkg.Imports() {\n\t\t\t\tfact := zero.CreateEmpty()\n\t\t\t\tif imp.Path() != \"\" && pass.ImportPackageFact(imp, fact) {")
harmless("C06", "ok-c06-annotation-struct-fields-reordered", AN, "\tOnType    string // \"MyStruct\"\n\tOnTypePos token.Pos\n\n\tConstructorNames []string // [\"New\", \"Create\"]\n}", "\tConstructorNames []string // [\"New\", \"Create\"]\n\n\tOnTypePos token.Pos\n\tOnType    string // \"MyStruct\"\n}")
harmless("C06", "ok-c06-extra-exported-field-in-fact", AN, "\tPackageOnlyAnnotations []PackageOnlyAnnotation\n}", "\tPackageOnlyAnnotations []PackageOnlyAnnotation\n\tSchemaVersion          int\n}")
harmless("C06", "ok-c06-tonl01-dedup-key-includes-package-path", TC, "\t\t\t\t\t\tif !reportedTypes[v.TestOnlyObj] {\n\t\t\t\t\t\t\tviolations = append(violations, *v)\n\t\t\t\t\t\t\treportedTypes[v.TestOnlyObj] = true\n\t\t\t\t\t\t}", "\t\t\t\t\t\tif k := fmt.Sprint(v.Pos) + v.TestOnlyObj; k != \"\" && !reportedTypes[pkgOf(&context, node)+\".\"+v.TestOnlyObj] {\n\t\t\t\t\t\t\tviolations = append(violations, *v)\n\t\t\t\t\t\t\treportedTypes[pkgOf(&context, node)+\".\"+v.TestOnlyObj] = true\n\t\t\t\t\t\t}", 1)
harmless("C06", "ok-c06-tonl01-dedup-key-includes-package-path", TC, "type testOnlyContext struct {", "// pkgOf returns the package path of the type a composite literal instantiates.\nfunc pkgOf(ctx *testOnlyContext, node *ast.CompositeLit) string {\n\tif ti := util.ExtractTypeInfo(ctx.pass.TypesInfo.TypeOf(node)); ti != nil {\n\t\treturn ti.PkgPath\n\t}\n\treturn \"\"\n}\n\ntype testOnlyContext struct {")
harmless("C06", "ok-c06-constructor-exemption-only-in-own-package", "src/immutable/checker.go", "\tif ctx.constructors.Match(pkgPath, *ctx.currentFunction, typeName) {\n\t\treturn nil\n\t}\n\n\t// Check if the field is marked as @mutable\n\tif ctx.mutableFields.Match(pkgPath, selector.Sel.Name, typeName) {\n\t\treturn nil\n\t}\n\n\treturn &ImmutableViolation{\n\t\tTypeName: typeName,\n\t\tCode:     codes.ImmutableFieldAssignment,", "\tif ctx.pass.Pkg.Path() == pkgPath && ctx.constructors.Match(pkgPath, *ctx.currentFunction, typeName) {\n\t\treturn nil\n\t}\n\n\t// Check if the field is marked as @mutable\n\tif ctx.mutableFields.Match(pkgPath, selector.Sel.Name, typeName) {\n\t\treturn nil\n\t}\n\n\treturn &ImmutableViolation{\n\t\tTypeName: typeName,\n\t\tCode:     codes.ImmutableFieldAssignment,")
harmless("C11", "ok-c11-mutex-protected-index-memo-per-types-package", IX,
    "func BuildImmutableTypesIndex[T annotations.AnnotationWrapper](pass *analysis.Pass, packageAnnotations *annotations.PackageAnnotations) util.TypesMap {\n\tresult := util.NewTypesMap()\n",
    "var (\n\timmMemoMu sync.Mutex\n\timmMemo   = map[*types.Package]util.TypesMap{}\n)\n\nfunc BuildImmutableTypesIndex[T annotations.AnnotationWrapper](pass *analysis.Pass, packageAnnotations *annotations.PackageAnnotations) util.TypesMap {\n\timmMemoMu.Lock()\n\tcached, ok := immMemo[pass.Pkg]\n\timmMemoMu.Unlock()\n\tif ok {\n\t\treturn cached\n\t}\n\tresult := util.NewTypesMap()\n\tdefer func() {\n\t\timmMemoMu.Lock()\n\t\timmMemo[pass.Pkg] = result\n\t\timmMemoMu.Unlock()\n\t}()\n")
harmless("C11", "ok-c11-mutex-protected-index-memo-per-types-package", IX, "import (\n\t\"go/types\"\n\t\"iter\"\n", "import (\n\t\"go/types\"\n\t\"iter\"\n\t\"sync\"\n")
