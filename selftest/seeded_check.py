#!/usr/bin/env python3
"""Run the owning check against every kept seeded change in /verif/seeded/*.
Each patch is applied to a fresh scratch worktree of /repo (never to /repo),
the check runs with VERIF_REPO pointing at it, the worktree is removed.
usage: seeded_check.py [--only SUBSTR] [--tier quick]"""
import json, os, shutil, subprocess, sys, time
VERIF = os.path.dirname(os.path.dirname(os.path.abspath(__file__)))
# the checks run here are against broken copies: their evidence and replay files must not land in /verif
SELFTEST_ROOT = "/var/tmp/vs-selftest-root"
os.makedirs(SELFTEST_ROOT, exist_ok=True)
if os.path.exists(os.path.join(VERIF, "known_findings.json")):
    shutil.copy(os.path.join(VERIF, "known_findings.json"), SELFTEST_ROOT)
os.environ["VERIF_ROOT_OVERRIDE"] = SELFTEST_ROOT
def sh(cmd, env=None):
    r = subprocess.run(["bash", "-c", cmd], env=env, capture_output=True, text=True, errors="replace")
    return r.returncode, r.stdout + r.stderr
only = sys.argv[sys.argv.index("--only") + 1] if "--only" in sys.argv else ""
tier = sys.argv[sys.argv.index("--tier") + 1] if "--tier" in sys.argv else "quick"
def wt2(sid, d):
    wt = "/tmp/sc2-" + sid
    sh(f"git -C /repo worktree remove --force {wt}"); shutil.rmtree(wt, ignore_errors=True)
    sh(f"git -C /repo worktree add --detach {wt} HEAD && git -C {wt} apply {d}/patch.diff")
    return wt

rows = []
for sid in sorted(os.listdir(os.path.join(VERIF, "seeded"))):
    d = os.path.join(VERIF, "seeded", sid)
    if only not in sid or not os.path.exists(os.path.join(d, "patch.diff")):
        continue
    meta = json.load(open(os.path.join(d, "meta.json")))
    wt = "/tmp/sc-" + sid
    sh(f"git -C /repo worktree remove --force {wt}"); shutil.rmtree(wt, ignore_errors=True)
    rc, out = sh(f"git -C /repo worktree add --detach {wt} HEAD && git -C {wt} apply {d}/patch.diff")
    if rc != 0:
        print(sid, "PATCH DOES NOT APPLY", out[-300:]); continue
    env = dict(os.environ, VERIF_REPO=wt, VERIF_SCRATCH="/var/tmp/vs-sc-" + sid)
    os.makedirs(env["VERIF_SCRATCH"], exist_ok=True)
    t0 = time.time()
    rc, out = sh(f"{VERIF}/check {meta['property']} {tier}", env=env)
    shutil.rmtree(env["VERIF_SCRATCH"], ignore_errors=True)
    sh(f"git -C /repo worktree remove --force {wt}"); shutil.rmtree(wt, ignore_errors=True)
    classes = [l[11:200] for l in out.splitlines() if l.startswith("violation:")]
    if rc != 1 and meta.get("also_check"):
        # the change breaks another claimed property than the one it was seeded for
        rc2, out2 = sh(f"{VERIF}/check {meta['also_check']} {tier}", env=dict(env, VERIF_REPO=wt2(sid, d)))
        meta["caught_by_check_of"] = meta["also_check"] if rc2 == 1 else None
        if rc2 == 1:
            rc, classes = 1, ["(by the %s check) " % meta["also_check"] + l[11:200] for l in out2.splitlines() if l.startswith("violation:")]
    meta["caught_by_check"] = rc == 1
    meta["last_check"] = {"cmd": f"VERIF_REPO=<scratch worktree with patch.diff applied> ./check {meta['property']} {tier}", "exit": rc, "wall_s": round(time.time() - t0), "violation_classes": classes[:4]}
    json.dump(meta, open(os.path.join(d, "meta.json"), "w"), indent=1)
    sh(f"git -C /repo worktree remove --force /tmp/sc2-{sid}"); shutil.rmtree("/tmp/sc2-" + sid, ignore_errors=True)
    print(f"{'CAUGHT' if rc == 1 else 'MISSED' if rc == 0 else 'INFRA '} {sid} exit={rc} ({meta['last_check']['wall_s']}s) {classes[:2]}", flush=True)
    if rc not in (0, 1):
        print(out[-1500:])
    rows.append((sid, rc))
print(sum(1 for _, rc in rows if rc == 1), "of", len(rows), "caught")
