package c16

// The reference model of C16, written from the property text only. It shares
// no code and no table with gogreement's codes or util packages.
//
//	a diagnostic with code c at position p is dropped iff some suppression
//	token equal to ALL, to c's category or to c itself is global or has a
//	range with start <= p <= end.

// the 16 documented codes and their categories, spelled out independently
var categoryOf = map[string]string{
	"IMM01": "IMM", "IMM02": "IMM", "IMM03": "IMM", "IMM04": "IMM",
	"CTOR01": "CTOR", "CTOR02": "CTOR", "CTOR03": "CTOR",
	"TONL01": "TONL", "TONL02": "TONL", "TONL03": "TONL",
	"PKGO01": "PKGO", "PKGO02": "PKGO", "PKGO03": "PKGO",
	"IMPL01": "IMPL", "IMPL02": "IMPL", "IMPL03": "IMPL",
}

type entry struct {
	token      string
	global     bool
	start, end int
}

type model struct{ entries []entry }

func (m *model) addScoped(tokens []string, start, end int) {
	for _, t := range tokens {
		m.entries = append(m.entries, entry{token: t, start: start, end: end})
	}
}

func (m *model) addGlobal(tokens []string) {
	for _, t := range tokens {
		m.entries = append(m.entries, entry{token: t, global: true})
	}
}

func (m *model) contains(c string, p int) bool {
	for _, e := range m.entries {
		match := e.token == "ALL" || e.token == c
		if !match {
			if cat, ok := categoryOf[c]; ok && e.token == cat {
				match = true
			}
		}
		if match && (e.global || (e.start <= p && p <= e.end)) {
			return true
		}
	}
	return false
}
