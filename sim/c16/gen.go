package c16

import (
	"verifsim/core"
	"verifsim/sched"
)

var smallTokens = []string{"ALL", "IMM", "IMM01", "IMM02", "CTOR01", "ZZZ"}
var smallQueryCodes = []string{"IMM01", "IMM02", "IMM03", "CTOR01", "CTOR02", "CTOR", "IMM", "ZZZ", "TONL01", "IMM99"}

var wideTokens = []string{"ALL",
	"IMM", "CTOR", "TONL", "PKGO", "IMPL",
	"IMM01", "IMM02", "IMM03", "IMM04", "CTOR01", "CTOR02", "CTOR03", "TONL01", "TONL02", "TONL03",
	"PKGO01", "PKGO02", "PKGO03", "IMPL01", "IMPL02", "IMPL03",
	"ZZZ", "all", "imm01", "IMM0", "IM", "CTOR0", "A", ""}
var wideQueryCodes = []string{
	"IMM01", "IMM02", "IMM03", "IMM04", "CTOR01", "CTOR02", "CTOR03", "TONL01", "TONL02", "TONL03",
	"PKGO01", "PKGO02", "PKGO03", "IMPL01", "IMPL02", "IMPL03",
	"IMM", "CTOR", "TONL", "PKGO", "IMPL", "ZZZ", "ALL",
	// not among the 16 documented codes: no category, whatever their spelling suggests
	"IMM99", "CTOR1", "PKGO00", "IMPLX"}

func Generate(t *core.Tape, opt core.RunOpt) *Case {
	c := &Case{}
	small := t.Draw(3) < 2
	switch t.Draw(12) {
	case 10:
		c.Start = "nil"
	case 11:
		c.Start = "zero-after-global-nil"
	default:
		c.Start = "empty"
	}
	var toks, qcodes []string
	var nops, maxPos int
	if small {
		c.Scope, toks, qcodes, nops, maxPos = "small", smallTokens, smallQueryCodes, t.Range(0, 4), 5
	} else {
		c.Scope, toks, qcodes, nops = "wide", wideTokens, wideQueryCodes, t.Range(0, 40)
		maxPos = []int{12, 100, 1000000}[t.Draw(3)]
	}
	var bounds []int
	for i := 0; i < nops; i++ {
		op := Op{}
		nt := t.Range(1, 3)
		for j := 0; j < nt; j++ {
			op.Tokens = append(op.Tokens, toks[t.Draw(len(toks))])
		}
		if t.Draw(4) == 3 {
			op.Kind = "global"
		} else {
			op.Kind = "add"
			if !small && len(c.Ops) > 0 && t.Chance(1, 4) {
				// a scope around an earlier one - function-level @ignore over an inline one,
				// file-level over function-level - often with the very same codes
				prev := c.Ops[t.Draw(len(c.Ops))]
				if prev.Kind == "add" {
					op.Start = prev.Start - t.Draw(5)
					if op.Start < 1 {
						op.Start = 1
					}
					op.End = prev.End + t.Draw(140)
					if t.Chance(1, 2) {
						op.Tokens = append([]string(nil), prev.Tokens...)
					}
					bounds = append(bounds, op.Start, op.End, prev.End+1, op.End-1)
					c.Ops = append(c.Ops, op)
					continue
				}
			}
			if len(bounds) > 0 && t.Chance(1, 4) {
				// duplicate / nested / abutting ranges
				b := bounds[t.Draw(len(bounds))]
				op.Start = b
				op.End = b + t.Draw(3)
			} else {
				op.Start = t.Range(1, maxPos)
				op.End = op.Start + t.Draw(maxPos-op.Start+1)
				if !small && t.Chance(1, 30) && op.End > op.Start {
					op.Start, op.End = op.End, op.Start // empty range: start > end
				}
			}
			bounds = append(bounds, op.Start, op.End)
		}
		if op.Kind == "add" && op.Start < 1 {
			// position 0 is token.NoPos: no suppression range starts there (the quantifier has
			// ranges inside 1..n; only QUERIES go down to 0). A derived bound must not either.
			op.Start = 1
			if op.End < 1 {
				op.End = 1
			}
		}
		c.Ops = append(c.Ops, op)
	}
	queriesFor := func(k int) []Query {
		var qs []Query
		if small {
			for _, code := range qcodes {
				for p := 0; p <= 6; p++ {
					qs = append(qs, Query{code, p})
				}
			}
			return qs
		}
		// wide: around every boundary seen so far, +-1, plus a few random ones
		seen := bounds
		if 2*k < len(bounds) {
			seen = bounds[:2*k]
		}
		n := 12
		for i := 0; i < n; i++ {
			var p int
			if len(seen) > 0 && t.Chance(3, 4) {
				p = seen[t.Draw(len(seen))] + t.Range(-1, 1)
			} else {
				p = t.Range(0, maxPos+1)
			}
			qs = append(qs, Query{qcodes[t.Draw(len(qcodes))], p})
		}
		return qs
	}
	for k := 0; k <= len(c.Ops); k++ {
		c.Queries = append(c.Queries, queriesFor(k))
	}
	c.Perm = make([]int, len(c.Ops))
	for i := range c.Perm {
		c.Perm[i] = i
	}
	for i := len(c.Perm) - 1; i > 0; i-- {
		j := t.Draw(i + 1)
		c.Perm[i], c.Perm[j] = c.Perm[j], c.Perm[i]
	}
	// concurrent phase
	if t.Chance(1, 2) || opt.P("always_concurrent") == "1" {
		c.Readers = t.Range(2, 5)
		c.Sched.Strategy = []int{sched.RandomWalk, sched.RandomWalk, sched.PCT, sched.RoundRobin, sched.Sequential}[t.Draw(5)]
		c.Sched.MeanGap = []int{2, 8, 40}[t.Draw(3)]
		c.Sched.PCTDepth = t.Range(1, 3)
		final := c.Queries[len(c.Queries)-1]
		for r := 0; r < c.Readers; r++ {
			var qs []Query
			n := t.Range(3, 12)
			for i := 0; i < n; i++ {
				qs = append(qs, final[t.Draw(len(final))])
			}
			c.ReaderQueries = append(c.ReaderQueries, qs)
		}
	}
	return c
}
