// Package c16 is the history-sim for property C16: util.IgnoreSet is built by
// one action and then queried concurrently by the checker actions. A seeded
// history of Add / AddModuleIgnore operations, with queries interleaved after
// every operation, is applied to the real IgnoreSet and to a list-scan
// reference model; afterwards the set is published to several reader tasks
// that query it under the seeded scheduler (and, in the race build, under the
// serialised-HB race oracle).
package c16

import (
	"encoding/json"
	"fmt"
	"go/token"
	"sort"
	"strings"

	"github.com/a14e/gogreement/src/simrt"
	"github.com/a14e/gogreement/src/util"

	"verifsim/core"
	"verifsim/sched"
)

type Engine struct{}

func init() { core.Register(Engine{}) }

func (Engine) ID() string { return "C16" }

type Op struct {
	Kind   string   `json:"kind"` // add | global
	Tokens []string `json:"tokens"`
	Start  int      `json:"start,omitempty"`
	End    int      `json:"end,omitempty"`
}

type Query struct {
	Code string `json:"code"`
	Pos  int    `json:"pos"`
}

type Case struct {
	Scope   string    `json:"scope"` // small | wide
	Start   string    `json:"start"` // empty | nil | zero-after-global-nil
	Ops     []Op      `json:"ops"`
	Queries [][]Query `json:"queries"` // Queries[k] run after k operations (k = 0..len(Ops))
	Perm    []int     `json:"perm"`    // add order of the order-independence replay
	Readers int       `json:"readers"`
	Sched   struct {
		Strategy int `json:"strategy"`
		MeanGap  int `json:"mean_gap"`
		PCTDepth int `json:"pct_depth"`
	} `json:"sched"`
	ReaderQueries [][]Query `json:"reader_queries"`
	SchedTape     []uint32  `json:"sched_tape"` // decisions of the concurrent phase, recorded
}

type ann struct {
	codes      []string
	start, end token.Pos
}

func (a *ann) GetCodes() []string     { return a.codes }
func (a *ann) GetStartPos() token.Pos { return a.start }
func (a *ann) GetEndPos() token.Pos   { return a.end }

type failure struct{ sig, detail string }

func apply(set *util.IgnoreSet, m *model, op Op) {
	switch op.Kind {
	case "add":
		set.Add(&ann{append([]string(nil), op.Tokens...), token.Pos(op.Start), token.Pos(op.End)})
		m.addScoped(op.Tokens, op.Start, op.End)
	case "global":
		set.AddModuleIgnore(append([]string(nil), op.Tokens...))
		m.addGlobal(op.Tokens)
	}
}

func newSet(start string) *util.IgnoreSet {
	switch start {
	case "nil":
		return nil
	case "zero-after-global-nil":
		s := &util.IgnoreSet{}
		s.AddModuleIgnore(nil)
		return s
	}
	return &util.IgnoreSet{}
}

func describe(q Query, got, want bool, k int, c *Case) string {
	var hist []string
	for i := 0; i < k && i < len(c.Ops); i++ {
		op := c.Ops[i]
		if op.Kind == "add" {
			hist = append(hist, fmt.Sprintf("Add(%v,[%d,%d])", op.Tokens, op.Start, op.End))
		} else {
			hist = append(hist, fmt.Sprintf("AddModuleIgnore(%v)", op.Tokens))
		}
	}
	return fmt.Sprintf("start=%s history=[%s]: Contains(%q, %d) = %v, the property says %v", c.Start, strings.Join(hist, " "), q.Code, q.Pos, got, want)
}

func classOf(q Query, got, want bool) string {
	if got && !want {
		return "suppressed-but-should-not"
	}
	return "not-suppressed-but-should"
}

// Execute applies the case to the real IgnoreSet; agg may be nil.
func Execute(c *Case, ch sched.Chooser, agg *core.Agg) (f *failure, hash uint64) {
	log := core.NewHasher()
	defer func() {
		if p := recover(); p != nil {
			f = &failure{"panic", fmt.Sprintf("panic: %v", p)}
			hash = log.Sum()
		}
	}()
	simrt.Hook = nil
	simrt.ResetAll()
	set := newSet(c.Start)
	m := &model{}
	check := func(k int) *failure {
		if k >= len(c.Queries) {
			return nil
		}
		for _, q := range c.Queries[k] {
			got := set.Contains(q.Code, token.Pos(q.Pos))
			want := m.contains(q.Code, q.Pos)
			agg.Inc("queries")
			if want {
				agg.Inc("queries_expected_true")
			}
			log.Str(q.Code)
			log.Int(q.Pos)
			if got {
				log.Int(1)
			} else {
				log.Int(0)
			}
			if got != want {
				return &failure{classOf(q, got, want), describe(q, got, want, k, c)}
			}
		}
		return nil
	}
	if f := check(0); f != nil {
		return f, log.Sum()
	}
	for k, op := range c.Ops {
		if c.Start == "nil" {
			break // a nil collection only answers queries
		}
		apply(set, m, op)
		agg.Inc("op." + op.Kind)
		log.Str(op.Kind)
		if f := check(k + 1); f != nil {
			return f, log.Sum()
		}
	}
	// order independence: same operations, permuted order, final-state queries
	if c.Start != "nil" && len(c.Perm) == len(c.Ops) && len(c.Ops) > 1 {
		set2 := newSet(c.Start)
		m2 := &model{}
		for _, i := range c.Perm {
			apply(set2, m2, c.Ops[i])
		}
		agg.Inc("order_permutations")
		for _, q := range c.Queries[len(c.Queries)-1] {
			a, b := set.Contains(q.Code, token.Pos(q.Pos)), set2.Contains(q.Code, token.Pos(q.Pos))
			if a != b {
				return &failure{"order-dependent", fmt.Sprintf("%s; with the adds applied in order %v the answer is %v", describe(q, a, m.contains(q.Code, q.Pos), len(c.Ops), c), c.Perm, b)}, log.Sum()
			}
		}
	}
	// concurrent phase: one builder task, K readers that depend on it
	if c.Readers > 0 && ch != nil {
		s := sched.New(ch, sched.Config{Strategy: c.Sched.Strategy, MeanGap: c.Sched.MeanGap, PCTDepth: c.Sched.PCTDepth, Horizon: 400})
		var shared *util.IgnoreSet
		builder := s.Add("ignorereader", func() {
			shared = newSet(c.Start)
			if c.Start != "nil" {
				mm := &model{}
				for _, op := range c.Ops {
					apply(shared, mm, op)
				}
			}
		})
		fails := make([]*failure, c.Readers)
		for r := 0; r < c.Readers; r++ {
			r := r
			t := s.Add(fmt.Sprintf("checker%d", r), func() {
				for _, q := range c.ReaderQueries[r] {
					got := shared.Contains(q.Code, token.Pos(q.Pos))
					want := m.contains(q.Code, q.Pos)
					if got != want && fails[r] == nil {
						fails[r] = &failure{"concurrent-" + classOf(q, got, want), "reader " + fmt.Sprint(r) + " under the seeded schedule: " + describe(q, got, want, len(c.Ops), c)}
					}
				}
			})
			t.DependsOn(builder)
		}
		simrt.Hook = s.Yield
		st := s.Run()
		simrt.Hook = nil
		agg.Inc("concurrent_phases")
		agg.Add("sched.steps", int64(st.Steps))
		agg.Add("sched.switches", int64(st.Switches))
		agg.Add("sched.preemptions", int64(st.Preemptions))
		if st.Preemptions > 0 {
			agg.Inc("probe.readers_interleaved_inside_Contains")
		}
		agg.Distinct("schedules", st.TraceHash)
		keys := make([][2]int, 0, len(st.SitePairs))
		for k := range st.SitePairs {
			keys = append(keys, k)
		}
		sort.Slice(keys, func(i, j int) bool {
			return keys[i][0] < keys[j][0] || keys[i][0] == keys[j][0] && keys[i][1] < keys[j][1]
		})
		for _, k := range keys {
			agg.Distinct("site_pairs", uint64(k[0])<<32|uint64(uint32(k[1])))
		}
		log.Int(int(st.TraceHash))
		for _, t := range s.Tasks() {
			if t.Panic != nil {
				return &failure{"panic", fmt.Sprintf("task %s panicked: %v", t.Name, t.Panic)}, log.Sum()
			}
		}
		for _, f := range fails {
			if f != nil {
				return f, log.Sum()
			}
		}
	}
	return nil, log.Sum()
}

func (e Engine) Run(t *core.Tape, opt core.RunOpt, agg *core.Agg) *core.Violation {
	c := Generate(t, opt)
	mark := t.Consumed()
	f, h := Execute(c, t, agg)
	c.SchedTape = t.Recorded()[mark:]
	return e.finish(c, f, h, agg)
}

func (e Engine) finish(c *Case, f *failure, h uint64, agg *core.Agg) *core.Violation {
	agg.SetRunHash(h)
	if agg != nil {
		agg.Inc("executions")
		agg.Inc("scope." + c.Scope)
		agg.Inc("start." + c.Start)
		b, _ := json.Marshal(struct {
			S string
			O []Op
		}{c.Start, c.Ops})
		hh := core.HashString(string(b))
		agg.Distinct("histories", hh)
		if len(c.Ops) > 0 {
			agg.Distinct("nontrivial", hh)
		}
		if c.Scope == "small" {
			agg.Distinct("small_scope_histories", hh)
		}
		agg.Sample("case."+c.Scope, 2, c)
	}
	if f == nil {
		return nil
	}
	raw, _ := json.Marshal(c)
	return &core.Violation{Property: "C16", Sig: f.sig, Detail: f.detail, Case: raw, EventHash: fmt.Sprintf("%016x", h)}
}

func (e Engine) ReplayCase(raw json.RawMessage, opt core.RunOpt, agg *core.Agg) (*core.Violation, error) {
	var c Case
	if err := json.Unmarshal(raw, &c); err != nil {
		return nil, err
	}
	f, h := Execute(&c, core.ReplayTape(c.SchedTape), agg)
	return e.finish(&c, f, h, agg), nil
}
