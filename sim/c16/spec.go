package c16

import (
	"encoding/json"
	"time"

	"verifsim/core"
)

func Spec(tier string, seed uint64, raceBin string) *core.CheckSpec {
	runs, raceRuns := 150000, 12000
	budget := 4 * time.Minute
	if tier == "thorough" {
		runs, raceRuns = 6000000, 300000
		budget = 25 * time.Minute
	}
	e := Engine{}
	legs := []*core.Leg{
		{Name: "history-sim", Runs: runs, Opt: core.RunOpt{Tier: tier, Leg: "history-sim"}},
	}
	if raceBin != "" {
		legs = append(legs, &core.Leg{Name: "history-sim-race", Bin: raceBin, Runs: raceRuns, Offset: 1 << 30,
			Opt: core.RunOpt{Tier: tier, Leg: "history-sim-race", Params: map[string]string{"always_concurrent": "1"}},
			Env: core.RaceEnv(), OnWorkerDeath: raceAsNote(e, seed)})
	}
	return &core.CheckSpec{
		Engine: e, Tier: tier, Seed: seed, Budget: budget, MaxExec: 3000, Legs: legs,
		Minimise: func(v *core.Violation, opt core.RunOpt) *core.Violation {
			if len(v.Sig) > 10 && v.Sig[:10] == "data-race:" {
				return core.MinimiseSubprocess(raceBin, e, v, opt, 250)
			}
			return core.MinimiseInProcess(e, v, opt, 3000)
		},
		Coverage: func(a *core.Agg) map[string]any { return coverage(a, raceBin != "") },
		Assumptions: []string{
			"queries with an unknown code that carries a known category prefix (e.g. IMM99) are not generated: the property does not say what their category is",
			"readers never add: that is how the driver uses the set (one ignorereader action builds it, the checker actions only query it)",
			"token comparison is string equality; the readers upper-case tokens before adding, which is C07/C08's business",
			"the small scope named by the property's quantifier (<= 4 adds, alphabet of 6 tokens, ranges in 1..5, positions 0..6) is SAMPLED, not enumerated; the number of distinct small-scope histories visited is reported",
		},
	}
}

// raceAsNote: a data race inside the suppression structure is a C11 matter
// (and the C11 check reports it). C16 is about the answers: a race that can
// make an answer wrong is reachable as a wrong answer by the seeded scheduler,
// which preempts before every statement of ignoreset.go and codes.go; a race
// that cannot (a statistics counter) leaves C16 true. So the race build of
// this check only NOTES races and keeps comparing answers.
func raceAsNote(e Engine, seed uint64) func(leg *core.Leg, worker, exitCode int, stderr string, lastRun int) (*core.Violation, error) {
	return func(leg *core.Leg, worker, exitCode int, stderr string, lastRun int) (*core.Violation, error) {
		if exitCode != core.RaceExit {
			return nil, nil
		}
		sig, _, ok := core.ParseRace(stderr)
		if !ok {
			return nil, nil
		}
		return &core.Violation{Sig: "NOTE:race", Detail: "the race detector reported unordered conflicting accesses among concurrent readers of the IgnoreSet (" + sig + "); C16 judges answers only - see the C11 check for the race itself"}, nil
	}
}

func (Engine) Materialise(t *core.Tape, opt core.RunOpt) json.RawMessage {
	c := Generate(t, opt)
	mark := t.Consumed()
	Execute(c, t, nil)
	c.SchedTape = t.Recorded()[mark:]
	b, _ := json.Marshal(c)
	return b
}

func coverage(a *core.Agg, race bool) map[string]any {
	samples := []any{}
	for _, k := range []string{"case.small", "case.wide"} {
		for _, s := range a.Samples[k] {
			var v any
			json.Unmarshal(s, &v)
			samples = append(samples, v)
		}
	}
	return map[string]any{
		"evaluations":         a.Counters["executions"],
		"distinct_nontrivial": a.DistinctCount("nontrivial"),
		"rule": "one evaluation = one seeded history (0-4 operations in the small scope, 0-40 in the wide one) applied to the real util.IgnoreSet and to the list-scan model, queries after every operation, a permuted-order replay, and (half of the runs; all runs of the race leg) a concurrent phase with 2-5 reader tasks under the seeded scheduler; " +
			"distinct = distinct (start state, operation sequence); non-trivial = at least one operation",
		"samples":                               samples,
		"queries_compared":                      a.Counters["queries"],
		"queries_expected_suppressed":           a.Counters["queries_expected_true"],
		"operations":                            a.WithPrefix("op."),
		"scopes":                                a.WithPrefix("scope."),
		"start_states":                          a.WithPrefix("start."),
		"distinct_histories":                    a.DistinctCount("histories"),
		"distinct_small_scope_histories":        a.DistinctCount("small_scope_histories"),
		"order_permutation_replays":             a.Counters["order_permutations"],
		"concurrent_phases":                     a.Counters["concurrent_phases"],
		"scheduler":                             a.WithPrefix("sched."),
		"distinct_schedules":                    a.DistinctCount("schedules"),
		"distinct_preempted_resumed_site_pairs": a.DistinctCount("site_pairs"),
		"probes":                                a.WithPrefix("probe."),
		"race_oracle_leg":                       race,
		"race_oracle_runs":                      a.Counters["leg.history-sim-race.runs"],
		"fault_kinds":                           "schedule perturbation only (preemption inside Contains/GetCodesForCheck, reader order); the property has no I/O, clock or crash dimension",
		"simulated_time":                        "none: no timer in the component; progress is counted in yield points (scheduler.steps)",
		"real_code":                             []string{"util.IgnoreSet (Add, AddModuleIgnore, Contains)", "codes.GetCodesForCheck"},
		"stubbed":                               []string{"the driver: one builder task and K reader tasks with the dependency edges of the real analyzer DAG (ignorereader -> checkers)"},
		"budget_stops":                          a.Counters["budget_stops"],
		"exhaustive":                            false,
	}
}
