package c19

import (
	"encoding/json"
	"fmt"
	"go/token"
	"sort"
	"strings"

	"github.com/a14e/gogreement/src/reporting"

	"verifsim/core"
	"verifsim/driver"
	"verifsim/sched"
	"verifsim/world"
)

// The pipeline leg: the same reference renderer, but the messages come out of
// the real analyzers run by checker-sim over a generated multi-package world
// (so every real call site of the reporter is exercised: one reporter per
// checker action, the @implements checker reporting three kinds of problems
// through one reporter, several files per reporter), with long leading block
// comments and trailing comments on the reported statements, and with read
// faults planted on the files the reporter will read.

type PipeCase struct {
	World  *world.World      `json:"world"`
	Faults map[string]string `json:"read_faults"` // file name -> eio | empty | short:<n> | edited:<content>
	Sched  sched.Config      `json:"sched"`
	Tape   []uint32          `json:"decisions"`
}

func genPipe(t *core.Tape) *PipeCase {
	w, _ := world.Generate(t, world.GenOpt{MinPkgs: 2, MaxPkgs: 4, LongLines: true})
	c := &PipeCase{World: w, Faults: map[string]string{}}
	if t.Chance(1, 2) {
		// faults on some files: what an editor, a generator or a full disk does
		// between type-checking and reporting
		for i := range w.Pkgs {
			p := &w.Pkgs[i]
			for _, f := range p.Files {
				if !t.Chance(1, 4) {
					continue
				}
				name := driver.FileName(w, p, f)
				switch t.Draw(5) {
				case 0:
					c.Faults[name] = "eio"
				case 1:
					c.Faults[name] = "empty"
				case 2:
					c.Faults[name] = fmt.Sprintf("short:%d", t.Draw(len(f.Src)+1))
				case 3:
					lines := strings.SplitAfter(f.Src, "\n")
					c.Faults[name] = "edited:" + strings.Join(lines[:t.Draw(len(lines)+1)], "")
				default:
					c.Faults[name] = "edited:// replaced\npackage x\n" + f.Src[:t.Draw(len(f.Src)+1)]
				}
			}
		}
	}
	switch t.Draw(3) {
	case 0:
		c.Sched = sched.Config{Strategy: sched.Sequential}
	case 1:
		c.Sched = sched.Config{Strategy: sched.RandomWalk, MeanGap: 50}
	default:
		c.Sched = sched.Config{Strategy: sched.RandomWalk, MeanGap: 600}
	}
	return c
}

func executePipe(c *PipeCase, ch sched.Chooser, agg *core.Agg) (*failure, uint64, error) {
	l, err := driver.LoadAll(c.World)
	if err != nil {
		return nil, 0, core.Infra("%v", err)
	}
	l.ReadFaults = c.Faults
	if l.ReadFaults == nil {
		l.ReadFaults = map[string]string{}
	}
	var roots []string
	for _, p := range c.World.Pkgs {
		roots = append(roots, p.Path)
	}
	out, _, err := driver.RunChecker(l, &driver.Exec{Driver: "checker", Transport: "share", Roots: roots, Rerun: -1, Sched: c.Sched}, ch)
	if err != nil {
		return nil, 0, core.Infra("%v", err)
	}
	log := core.NewHasher()
	limit := reporting.MaxLineLength
	// what each action was served, in order
	type key struct{ action, file string }
	served := map[string][][]byte{}
	failed := map[string]map[string]bool{}
	for _, ev := range l.ReadLog {
		if ev.Failed {
			if failed[ev.Action] == nil {
				failed[ev.Action] = map[string]bool{}
			}
			failed[ev.Action][ev.File] = true
			agg.Inc("fault_fired.eio_in_pipeline")
		} else {
			served[ev.File] = append(served[ev.File], ev.Data)
		}
	}
	for f, k := range c.Faults {
		if len(served[f]) > 0 && k != "eio" {
			agg.Inc("fault_fired." + strings.SplitN(k, ":", 2)[0] + "_in_pipeline")
		}
	}
	// panics of analyzer actions (e.g. out-of-range in the renderer) are failures of C19's last clause
	paths := make([]string, 0, len(out.Errors))
	for p := range out.Errors {
		paths = append(paths, p)
	}
	sort.Strings(paths)
	for _, p := range paths {
		for _, e := range out.Errors[p] {
			if strings.Contains(e, "panic") && (strings.Contains(e, "reporting") || strings.Contains(e, "slice bounds") || strings.Contains(e, "index out of range")) {
				return &failure{"panic", "an analyzer action panicked while reporting in package " + p + ": " + e}, log.Sum(), nil
			}
		}
	}
	for i, d := range out.RawDiags {
		action := out.Actions[i]
		// the reporter identity is the action: rep index by first appearance
		dk := &disk{served: served, failed: map[int]map[string]bool{0: failed[action]}}
		pos := token.Position{Filename: driver.SimRoot() + d.File, Line: d.Line, Column: d.Col}
		log.Str(d.Msg)
		agg.Inc("op.pipeline_diagnostic_judged")
		if len(d.Msg) > 0 {
			if f := judge(d.Msg, pos, dk, 0, limit, agg); f != nil {
				f.detail = fmt.Sprintf("diagnostic of %s at %s:%d:%d (through the real analyzer pipeline; read fault on that file: %q)\n%s\nmessage was:\n%s",
					action, d.File, d.Line, d.Col, clipFault(c.Faults[pos.Filename]), f.detail, indent(clip(d.Msg, 1500)))
				return f, log.Sum(), nil
			}
		}
	}
	return nil, log.Sum(), nil
}

func clipFault(s string) string {
	if len(s) > 40 {
		return s[:40] + "…"
	}
	return s
}

func (e Engine) runPipe(t *core.Tape, agg *core.Agg) *core.Violation {
	c := genPipe(t)
	mark := t.Consumed()
	f, h, err := executePipe(c, t, agg)
	c.Tape = t.Recorded()[mark:]
	return e.finishPipe(c, f, h, err, agg)
}

func (e Engine) finishPipe(c *PipeCase, f *failure, h uint64, err error, agg *core.Agg) *core.Violation {
	if err != nil {
		panic(err)
	}
	agg.SetRunHash(h)
	if agg != nil {
		agg.Inc("pipeline_executions")
		agg.Distinct("event_logs", h)
		agg.Distinct("nontrivial", h)
		if len(c.Faults) > 0 {
			agg.Inc("class.fault_injecting_runs")
		} else {
			agg.Inc("class.fault_free_runs")
		}
	}
	if f == nil {
		return nil
	}
	raw, _ := json.Marshal(map[string]any{"pipeline": c})
	return &core.Violation{Property: "C19", Sig: f.sig, Detail: f.detail, Case: raw, EventHash: fmt.Sprintf("%016x", h)}
}
