package c19

import (
	"encoding/json"
	"time"

	"verifsim/core"
)

// Spec: quick = 40k runs, thorough = 1.5M runs (plus more giant-line runs).
func Spec(tier string, seed uint64) *core.CheckSpec {
	runs, pipe := 60000, 1500
	budget := 4 * time.Minute
	if tier == "thorough" {
		runs, pipe = 10000000, 60000
		budget = 25 * time.Minute
	}
	return &core.CheckSpec{
		Engine: Engine{}, Tier: tier, Seed: seed,
		Budget:  budget,
		MaxExec: 3000,
		Legs: []*core.Leg{
			{Name: "disk-sim", Runs: runs, Opt: core.RunOpt{Tier: tier, Leg: "disk-sim"}},
			{Name: "pipeline", Runs: pipe, Offset: 1 << 30, Opt: core.RunOpt{Tier: tier, Leg: "pipeline"}},
		},
		Coverage: coverage,
		Assumptions: []string{
			"columns are byte columns (go/token); a caret prefix one cell per byte or one per rune is accepted; display width of wide runes is not judged",
			"a file version counts as 'the source' if the simulated disk served it for that file name at any earlier point of the run (reporters may cache)",
			"'no excerpt' is accepted for a (reporter, file) after any read of that file by that reporter failed",
			"a diagnostic one line past the end of a file that ends in a newline may be rendered either way (empty line or no excerpt)",
			"the header line and the help line of a message are not judged here (C17)",
			"the display limit is read from the exported constant reporting.MaxLineLength at build time",
		},
	}
}

func coverage(a *core.Agg) map[string]any {
	samples := []any{}
	for _, s := range a.Samples["case"] {
		var v any
		json.Unmarshal(s, &v)
		samples = append(samples, v)
	}
	return map[string]any{
		"evaluations": a.Counters["executions"] + a.Counters["pipeline_executions"],
		"pipeline_leg": map[string]any{"executions": a.Counters["pipeline_executions"], "diagnostics_judged": a.Counters["op.pipeline_diagnostic_judged"],
			"what": "generated multi-package worlds with long leading/trailing comments on reported statements, analysed by all real analyzers under checker-sim; every emitted message judged by the same reference renderer; read faults (eio / empty / short / edited) planted on source files"},
		"distinct_nontrivial": a.DistinctCount("nontrivial"),
		"rule": "one evaluation = one seeded operation sequence (report/edit/arm-fault/clear over 1-3 files and 1-3 reporters) executed against the real reporting.Reporter over the simulated disk; " +
			"distinct = distinct event-log hash (every op, every read with the bytes served or the error, every emitted message); non-trivial = at least one report was executed and judged",
		"samples":              samples,
		"fault_free_runs":      a.Counters["class.fault_free_runs"],
		"fault_injecting_runs": a.Counters["class.fault_injecting_runs"],
		"operations":           a.WithPrefix("op."),
		"faults_armed":         a.WithPrefix("fault_armed."),
		"faults_fired":         a.WithPrefix("fault_fired."),
		"probes":               a.WithPrefix("probe."),
		"distinct_event_logs":  a.DistinctCount("event_logs"),
		"simulated_time":       "none: the reporter has no timer; the unit of progress is the operation",
		"real_code":            []string{"reporting.NewReporter", "reporting.Reporter.ReportViolation and everything below it", "util.IgnoreSet (nil / empty)", "go/token FileSet positions incl. //line-style remapping"},
		"stubbed":              []string{"analysis.Pass (hand-built: Fset, ReadFile, Report)", "the disk behind pass.ReadFile (in-memory, fault plan applied per read)"},
		"budget_stops":         a.Counters["budget_stops"],
		"exhaustive":           false,
	}
}
