package c19

import (
	"bytes"
	"fmt"
	"go/token"
	"regexp"
	"strconv"
	"strings"
	"unicode/utf8"

	"verifsim/core"
)

// The reference renderer, written from the text of C19. It does not render;
// it decides whether a rendered message is one the property allows, given the
// bytes the disk actually served.
//
//   - a file version with fewer lines than the diagnostic's line, or a failed
//     read, must give a message WITHOUT excerpt;
//   - otherwise an excerpt must be present, its numbered lines form one
//     contiguous ascending run that contains the diagnostic's line, every
//     numbered line n shows source line n - exactly when it fits the display
//     limit, otherwise as ["..."] + contiguous part of the line (at most
//     `limit` bytes) + ["..."], with at least one ellipsis;
//   - exactly one caret line, directly under the diagnostic's line; if the
//     column addresses a byte of that line, the shown part contains that byte
//     and the caret prefix is as wide as the text before it, tab for tab.
//
// Which file version counts: any version the disk has served for that file
// name so far (the reporter may cache). "No excerpt" is additionally accepted
// once a read of that file by that reporter has failed.

// The gutter is parsed tolerantly (|, box-drawing bars or a colon; one or
// several carets): the property is about what is shown, not about the frame.
const bom = "\xef\xbb\xbf"

var numbered = regexp.MustCompile(`^( *(\d+) (?:\||│|┃|:) )(.*)$`)
var caretLn = regexp.MustCompile(`^( * (?:\||│|┃|:) )([ \t]*)\^+~*$`)

type exLine struct {
	n      int
	text   string
	gutter int     // display width of what precedes the text (number, bar, blank)
	caret  *string // prefix of the caret line following this line, if any
	cgut   int     // display width of what precedes the caret line's prefix
}

type excerpt struct {
	lines       []exLine
	strayCarets int
}

func parseMessage(msg string) *excerpt {
	parts := strings.Split(msg, "\n")
	ex := &excerpt{}
	for _, ln := range parts[1:] { // parts[0] is the header line
		if m := numbered.FindStringSubmatch(ln); m != nil {
			n, _ := strconv.Atoi(m[2])
			ex.lines = append(ex.lines, exLine{n: n, text: m[3], gutter: utf8.RuneCountInString(m[1])})
			continue
		}
		if m := caretLn.FindStringSubmatch(ln); m != nil {
			if len(ex.lines) == 0 || ex.lines[len(ex.lines)-1].caret != nil {
				ex.strayCarets++
				continue
			}
			p := m[2]
			ex.lines[len(ex.lines)-1].caret = &p
			ex.lines[len(ex.lines)-1].cgut = utf8.RuneCountInString(m[1])
		}
	}
	return ex
}

// splitLines: the lines of a file version, terminators (\n, \r\n) removed.
func splitLines(v []byte) (lines []string, endsWithNewline bool) {
	if len(v) == 0 {
		return nil, true
	}
	s := string(v)
	endsWithNewline = strings.HasSuffix(s, "\n")
	if endsWithNewline {
		s = s[:len(s)-1]
	}
	for _, l := range strings.Split(s, "\n") {
		lines = append(lines, strings.TrimSuffix(l, "\r"))
	}
	return
}

// parse of a shown line against a source line: the shown text is
// lead + src[off:off+n] + trail.
type shownParse struct {
	lead int // 0 or 3
	off  int
	n    int
}

// parsesOf lists the ways `shown` can be read as a rendering of `src`.
// For the both-sides-truncated form the part may occur at many offsets (think
// of a line of 60 000 identical bytes); col > 0 restricts the listing to the
// offsets whose part contains byte col-1, col == 0 asks for any one.
func parsesOf(shown, src string, limit int, col int) []shownParse {
	if len(src) <= limit {
		if shown == src {
			return []shownParse{{0, 0, len(src)}}
		}
		return nil
	}
	var out []shownParse
	const el = "..."
	if strings.HasSuffix(shown, el) {
		k := len(shown) - 3
		if k <= limit && k <= len(src) && src[:k] == shown[:k] {
			out = append(out, shownParse{0, 0, k})
		}
	}
	if strings.HasPrefix(shown, el) {
		k := len(shown) - 3
		if k <= limit && k <= len(src) && src[len(src)-k:] == shown[3:] {
			out = append(out, shownParse{3, len(src) - k, k})
		}
	}
	if strings.HasPrefix(shown, el) && strings.HasSuffix(shown, el) && len(shown) >= 6 {
		mid := shown[3 : len(shown)-3]
		if len(mid) <= limit {
			if col <= 0 {
				if i := strings.Index(src, mid); i >= 0 {
					out = append(out, shownParse{3, i, len(mid)})
				}
			} else {
				lo, hi := col-len(mid), col-1 // offsets o with o <= col-1 < o+len(mid)
				if lo < 0 {
					lo = 0
				}
				for o := lo; o <= hi && o+len(mid) <= len(src); o++ {
					if src[o:o+len(mid)] == mid {
						out = append(out, shownParse{3, o, len(mid)})
					}
				}
			}
		}
	}
	return out
}

func noExcerpt(ex *excerpt) bool { return len(ex.lines) == 0 && ex.strayCarets == 0 }

// matches: is msg an allowed rendering of (L, C) over file version v?
// why explains the first reason it is not.
func matches(ex *excerpt, v []byte, L, C, limit int, agg *core.Agg) (ok bool, why string, score int) {
	lines, nl := splitLines(v)
	n := len(lines)
	if L > n {
		if noExcerpt(ex) {
			agg.Inc("probe.short_file_no_excerpt")
			return true, "", 0
		}
		// a file ending in a newline may be said to have an empty line n+1
		if L == n+1 && nl {
			lines2 := append(append([]string{}, lines...), "")
			if okVirtual(ex, lines2, L, limit) {
				return true, "", 0
			}
		}
		return false, fmt.Sprintf("class=partial-excerpt-short-file: the served file has %d line(s), the diagnostic is on line %d, yet an excerpt is shown", n, L), score
	}
	if len(ex.lines) == 0 {
		return false, fmt.Sprintf("class=excerpt-missing: the file was served (%d lines, diagnostic on line %d) but the message has no excerpt", n, L), score
	}
	if ex.strayCarets > 0 {
		return false, "class=caret-misplaced: a caret line that does not follow a numbered line", score
	}
	hasL := false
	for i, l := range ex.lines {
		if i > 0 && l.n != ex.lines[i-1].n+1 {
			return false, fmt.Sprintf("class=context-not-neighbouring: excerpt line numbers %d then %d", ex.lines[i-1].n, l.n), score
		}
		if l.n < 1 || l.n > n {
			return false, fmt.Sprintf("class=context-not-neighbouring: excerpt shows line %d of a %d-line file", l.n, n), score
		}
		src := lines[l.n-1]
		col := C
		if l.n == 1 && strings.HasPrefix(src, bom) && len(parsesOf(l.text, src, limit, 0)) == 0 {
			// a renderer may leave the byte order mark out of the display; the column,
			// which counts its three bytes, then addresses the text three bytes earlier
			src, col = src[len(bom):], C-len(bom)
			agg.Inc("probe.line1_shown_without_bom")
		}
		ps := parsesOf(l.text, src, limit, 0)
		if len(ps) == 0 {
			if len(l.text) > limit+6 {
				return false, fmt.Sprintf("class=excerpt-line-too-long: excerpt line %d is %d bytes, limit %d + ellipses", l.n, len(l.text), limit), score
			}
			return false, fmt.Sprintf("class=excerpt-unfaithful: excerpt line %d does not show source line %d (source %d bytes: %q; shown %d bytes: %q)", l.n, l.n, len(src), clip(src, 80), len(l.text), clip(l.text, 80)), score
		}
		score++
		if l.n == L {
			hasL = true
			if l.caret == nil {
				return false, fmt.Sprintf("class=caret-missing: no caret line under line %d", L), score
			}
			if C := col; C >= 1 && C <= len(src) {
				okCaret := false
				contains := false
				for _, p := range parsesOf(l.text, src, limit, C) {
					if C-1 < p.off || C-1 >= p.off+p.n {
						continue
					}
					contains = true
					upto := l.text[:p.lead+(C-1-p.off)]
					// the caret row must start its text where the excerpt row does
					if caretPrefixOK(*l.caret, upto) && l.cgut == l.gutter {
						okCaret = true
					}
				}
				if !contains {
					return false, fmt.Sprintf("class=column-not-shown: the shown part of line %d does not contain column %d (line %d bytes, %s)", L, C, len(src), regime(len(src), C, limit)), score
				}
				if !okCaret {
					return false, fmt.Sprintf("class=caret-misaligned: caret prefix is %d wide, which is not under column %d of line %d (line %d bytes, %s)", len(*l.caret), C, L, len(src), regime(len(src), C, limit)), score
				}
				agg.Inc("probe.caret_checked." + regime(len(src), C, limit))
				if strings.Contains(src[:C-1], "\t") {
					agg.Inc("probe.caret_checked_after_tab")
				}
				if !isASCII(src[:C-1]) {
					agg.Inc("probe.caret_checked_after_multibyte")
				}
			} else {
				agg.Inc("probe.column_outside_line_totality_only")
			}
		} else if l.caret != nil {
			return false, fmt.Sprintf("class=caret-misplaced: caret under line %d, diagnostic is on line %d", l.n, L), score
		}
	}
	if !hasL {
		return false, fmt.Sprintf("class=line-missing: excerpt shows lines %d..%d but not the diagnostic's line %d", ex.lines[0].n, ex.lines[len(ex.lines)-1].n, L), score
	}
	return true, "", 0
}

// okVirtual: the excerpt of a diagnostic on the empty line after the final
// newline: all shown lines faithful, contiguous, containing L, caret under L.
func okVirtual(ex *excerpt, lines []string, L, limit int) bool {
	hasL := false
	for i, l := range ex.lines {
		if i > 0 && l.n != ex.lines[i-1].n+1 {
			return false
		}
		if l.n < 1 || l.n > len(lines) || len(parsesOf(l.text, lines[l.n-1], limit, 0)) == 0 {
			return false
		}
		if l.n == L {
			hasL = l.caret != nil
		} else if l.caret != nil {
			return false
		}
	}
	return hasL && ex.strayCarets == 0
}

func isASCII(s string) bool {
	for i := 0; i < len(s); i++ {
		if s[i] >= 0x80 {
			return false
		}
	}
	return true
}

// caretPrefixOK: the prefix must be as wide as `before` - one cell per byte
// (what go/token columns count) or, equally acceptable, one per rune - and
// must repeat each tab of `before` as a tab.
func caretPrefixOK(prefix, before string) bool {
	byteWise := func() bool {
		if len(prefix) != len(before) {
			return false
		}
		for i := 0; i < len(before); i++ {
			if (before[i] == '\t') != (prefix[i] == '\t') {
				return false
			}
		}
		return true
	}
	runeWise := func() bool {
		if !utf8.ValidString(before) {
			return false
		}
		rs := []rune(before)
		if len(prefix) != len(rs) {
			return false
		}
		for i, r := range rs {
			if (r == '\t') != (prefix[i] == '\t') {
				return false
			}
		}
		return true
	}
	return byteWise() || runeWise()
}

// regime names where (len, col) falls relative to the limit; descriptive only.
func regime(n, col, limit int) string {
	if n <= limit {
		return "fits"
	}
	switch {
	case col <= limit/2:
		return "long-line-head"
	case col > n-limit/2:
		return "long-line-tail"
	case col >= limit-6 && col <= limit+3:
		return "long-line-near-limit"
	default:
		return "long-line-middle"
	}
}

var classRe = regexp.MustCompile(`^class=([a-z-]+): `)

func judge(msg string, position token.Position, d *disk, rep int, limit int, agg *core.Agg) *failure {
	ex := parseMessage(msg)
	name := position.Filename
	L, C := position.Line, position.Column
	failedEver := d.failed[rep][name]
	if failedEver && noExcerpt(ex) {
		agg.Inc("probe.no_excerpt_after_failed_read")
		return nil
	}
	// a reporter that has itself been served the file must show one of the versions IT
	// was served (its own cache is fine, somebody else's stale copy is not); one that
	// never read it may show what any reporter was served (a shared cache)
	versions := d.served[name]
	if own := d.servedTo[rep][name]; len(own) > 0 {
		versions = own
	}
	var firstWhy string
	bestScore := -1
	// newest first: the common case
	for i := len(versions) - 1; i >= 0; i-- {
		v := versions[i]
		dup := false
		for j := len(versions) - 1; j > i; j-- {
			if bytes.Equal(versions[j], v) {
				dup = true
				break
			}
		}
		if dup {
			continue
		}
		ok, why, score := matches(ex, v, L, C, limit, agg)
		if ok {
			if i != len(versions)-1 {
				agg.Inc("probe.message_shows_older_served_version")
			}
			if failedEver {
				agg.Inc("probe.excerpt_after_transient_fault")
			}
			return nil
		}
		// explain against the version the message agrees with furthest
		if score > bestScore {
			firstWhy, bestScore = why, score
		}
	}
	if len(versions) == 0 {
		if noExcerpt(ex) {
			firstWhy = "class=excerpt-missing: no read of the file was attempted or none succeeded, and none failed for this reporter"
		} else {
			firstWhy = "class=excerpt-unfaithful: an excerpt is shown although the disk never served this file"
		}
	}
	sig := "oracle"
	if m := classRe.FindStringSubmatch(firstWhy); m != nil {
		sig = m[1]
		firstWhy = firstWhy[len(m[0]):]
	}
	return &failure{sig: sig, detail: firstWhy + fmt.Sprintf(" [versions served for %s: %d, a read by this reporter failed earlier: %v]", name, len(versions), failedEver)}
}
