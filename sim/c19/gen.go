package c19

import (
	"fmt"
	"strings"

	"github.com/a14e/gogreement/src/reporting"

	"verifsim/core"
)

// swarm configuration of one run
type swarm struct {
	tabs, multibyte, crlf, ellipsisInText bool
	bareCR, blobs, manyLines, bom         bool
	longLines                             bool
	giant                                 bool
	faults                                []string // enabled fault kinds
	edits                                 bool
	remap                                 bool
}

// DecoyDir is a directory on the REAL disk that holds files of the same names
// as the simulated ones, with different content: a renderer that goes around
// pass.ReadFile (os.ReadFile, os.Open) shows decoy text, which the simulated
// disk never served. Fixed path, identical content for every process.
const DecoyDir = "/var/tmp/verifsim-decoy/p"

var allFaults = []string{"eio", "enoent", "short", "empty"}

const alphabet = "abcdefghijklmnopqrstuvwxyzABCDEFGHIJKLMNOPQRSTUVWXYZ0123456789 _(){}[]=+-*/.,;:<>!&|^%\"'"

var multi = []string{"é", "ß", "世", "界", "😀", "λ", "ж"}

const blobAlphabet = "0123456789abcdefABCDEFghijklmnopqrstuvwxyzGHIJKLMNOPQRSTUVWXYZ_"

func genLine(t *core.Tape, sw *swarm, n int) string {
	var b strings.Builder
	if sw.blobs && n > 60 && t.Chance(1, 3) {
		// generated / minified code: one long identifier-like run, a little prose around it
		b.WriteString("v := \"")
		for b.Len() < n-2 {
			b.WriteByte(blobAlphabet[t.Draw(len(blobAlphabet))])
		}
		b.WriteString("\"")
		return b.String()
	}
	for b.Len() < n {
		switch {
		case sw.bareCR && t.Chance(1, 60):
			b.WriteByte('\r') // a bare carriage return is ordinary content for go/token
		case sw.tabs && t.Chance(1, 12):
			b.WriteByte('\t')
		case sw.multibyte && t.Chance(1, 14):
			m := multi[t.Draw(len(multi))]
			if b.Len()+len(m) <= n {
				b.WriteString(m)
			} else {
				b.WriteByte('x')
			}
		case sw.ellipsisInText && t.Chance(1, 40) && b.Len()+3 <= n:
			b.WriteString("...")
		default:
			b.WriteByte(alphabet[t.Draw(len(alphabet))])
		}
	}
	return b.String()
}

// lineLen draws a line length from the set the property's quantifier names:
// 0..3x the display limit, dense around the limit and its multiples.
func lineLen(t *core.Tape, sw *swarm, limit int) int {
	if !sw.longLines {
		return t.Range(0, 40)
	}
	switch t.Draw(10) {
	case 0:
		return 0
	case 1:
		return t.Range(1, 30)
	case 2:
		return t.Range(30, limit-5)
	case 3:
		return limit + t.Range(-4, 4)
	case 4:
		return 2*limit + t.Range(-8, 8)
	case 5:
		return 3*limit + t.Range(-6, 0)
	case 6:
		return t.Range(limit+1, 3*limit)
	case 7:
		return limit + t.Range(1, 12)
	default:
		return t.Range(0, 3*limit)
	}
}

func genContent(t *core.Tape, sw *swarm, limit int, nlines int) string {
	eol := "\n"
	if sw.crlf && t.Chance(1, 2) {
		eol = "\r\n"
	}
	var b strings.Builder
	giantAt := -1
	if sw.giant {
		giantAt = t.Draw(nlines)
	}
	for i := 0; i < nlines; i++ {
		if i == giantAt {
			// "however long the source line is"
			b.WriteString(genLine(t, &swarm{}, 40))
			b.WriteString(strings.Repeat("G", 66000+t.Draw(3000)))
			b.WriteString(genLine(t, &swarm{}, 40))
		} else {
			b.WriteString(genLine(t, sw, lineLen(t, sw, limit)))
		}
		if i < nlines-1 || t.Chance(3, 4) {
			b.WriteString(eol)
		}
	}
	return b.String()
}

func colFor(t *core.Tape, n, limit int) int {
	if n == 0 {
		return 1
	}
	var c int
	switch t.Draw(8) {
	case 0:
		c = 1
	case 1:
		c = n
	case 2:
		c = n + 1
	case 3:
		c = limit + t.Range(-6, 4)
	case 4:
		c = n - limit + t.Range(0, 8)
	case 5:
		c = n - t.Range(0, 6)
	case 6:
		c = t.Range(1, 8)
	default:
		c = t.Range(1, n+1)
	}
	if c < 1 {
		c = 1
	}
	if c > n+1 {
		c = n + 1
	}
	return c
}

var codes = []string{"IMM01", "CTOR02", "TONL03", "PKGO01", "IMPL03"}

// Generate draws one case from the tape. Choice 0 is always the simplest.
func Generate(t *core.Tape, opt core.RunOpt, agg *core.Agg) *Case {
	limit := reporting.MaxLineLength
	sw := &swarm{}
	// class: small draw = fault-free (the simplest), else fault-injecting
	faultFree := t.Draw(5) < 2
	sw.longLines = t.Chance(4, 5)
	sw.tabs = t.Chance(1, 2)
	sw.multibyte = t.Chance(1, 3)
	sw.crlf = t.Chance(1, 5)
	sw.ellipsisInText = t.Chance(1, 6)
	sw.giant = t.Chance(1, 150)
	sw.bareCR = t.Chance(1, 6)
	sw.blobs = t.Chance(1, 4)
	sw.manyLines = t.Chance(1, 5)
	sw.bom = t.Chance(1, 8)
	if !faultFree {
		for _, f := range allFaults {
			if t.Chance(1, 2) {
				sw.faults = append(sw.faults, f)
			}
		}
		sw.edits = t.Chance(1, 2)
		sw.remap = t.Chance(1, 5)
		if len(sw.faults) == 0 && !sw.edits && !sw.remap {
			sw.edits = true
		}
	}
	c := &Case{Reporters: t.Range(1, 3), IgnoreSet: []string{"nil", "empty"}[t.Draw(2)]}
	nfiles := t.Range(1, 3)
	lineCounts := make([][]int, nfiles)
	for i := 0; i < nfiles; i++ {
		nl := t.Range(1, 7)
		if sw.manyLines {
			// line numbers that change their width inside the excerpt window: 9|10, 99|100
			nl = []int{9, 10, 11, 12, 99, 100, 101, 103}[t.Draw(8)]
		}
		content := genContent(t, sw, limit, nl)
		if sw.bom && t.Chance(1, 2) {
			content = "\xef\xbb\xbf" + content // a UTF-8 byte order mark: three bytes that go/token counts in line 1's columns
		}
		f := File{Name: fmt.Sprintf("%s/f%d.go", DecoyDir, i), Content: core.Text(content)}
		lines, _ := splitLines([]byte(f.Content))
		for _, l := range lines {
			lineCounts[i] = append(lineCounts[i], len(l))
		}
		c.Files = append(c.Files, f)
	}
	if sw.remap {
		i := t.Draw(nfiles)
		f := &c.Files[i]
		f.RemapFrom = t.Range(1, len(lineCounts[i]))
		switch t.Draw(3) {
		case 0:
			f.RemapName = DecoyDir + "/generated.y" // not on the simulated disk
		case 1:
			f.RemapName = c.Files[t.Draw(nfiles)].Name
		default:
			f.RemapName = f.Name
		}
		f.RemapLine = t.Range(1, 9)
		f.RemapCol = t.Range(0, 3)
	}
	nops := t.Range(1, 10)
	for k := 0; k < nops; k++ {
		fi := t.Draw(nfiles)
		kind := 0
		if !faultFree {
			kind = t.Draw(10)
		}
		switch {
		case kind == 7 && sw.edits:
			nc := core.Text(editContent(t, sw, limit, string(c.Files[fi].Content)))
			c.Ops = append(c.Ops, Op{Kind: "edit", F: fi, NewContent: &nc})
		case kind >= 8 && len(sw.faults) > 0:
			fk := sw.faults[t.Draw(len(sw.faults))]
			op := Op{Kind: "fault", F: fi, Fault: fk, Sticky: t.Chance(1, 6)}
			if fk == "short" {
				op.Cut = t.Draw(len(c.Files[fi].Content) + 1)
			}
			c.Ops = append(c.Ops, op)
			// a fault is placed on the read a report will trigger: follow it
			// with a report on the same file (by a reporter that may or may
			// not have it cached)
			c.Ops = append(c.Ops, genReport(t, c, fi, lineCounts[fi], limit))
		case kind == 6 && len(sw.faults) > 0:
			c.Ops = append(c.Ops, Op{Kind: "clear", F: fi})
		default:
			c.Ops = append(c.Ops, genReport(t, c, fi, lineCounts[fi], limit))
		}
	}
	return c
}

func genReport(t *core.Tape, c *Case, fi int, lens []int, limit int) Op {
	ln := 1
	if len(lens) > 0 {
		ln = t.Range(1, len(lens))
		if len(lens) >= 9 && t.Chance(2, 3) {
			ln = []int{8, 9, 10, 98, 99, 100, 7, 97}[t.Draw(8)]
			if ln > len(lens) {
				ln = len(lens) - t.Draw(3)
			}
			if ln < 1 {
				ln = 1
			}
		}
	}
	n := 0
	if ln-1 < len(lens) {
		n = lens[ln-1]
	}
	return Op{Kind: "report", R: t.Draw(c.Reporters), F: fi, Line: ln, Col: colFor(t, n, limit),
		Code: codes[t.Draw(len(codes))], Msg: "simulated violation"}
}

// editContent: what an editor, a generator or a VCS checkout does to a file
// between type-checking and reporting.
func editContent(t *core.Tape, sw *swarm, limit int, old string) string {
	lines := strings.SplitAfter(old, "\n")
	switch t.Draw(7) {
	case 6: // same size, other text (two lines swapped, or every letter rotated)
		if len(lines) >= 2 && t.Chance(1, 2) {
			i, j := t.Draw(len(lines)), t.Draw(len(lines))
			if strings.HasSuffix(lines[i], "\n") == strings.HasSuffix(lines[j], "\n") {
				lines[i], lines[j] = lines[j], lines[i]
			}
			return strings.Join(lines, "")
		}
		b := []byte(old)
		for k, ch := range b {
			if ch >= 'a' && ch < 'z' {
				b[k] = ch + 1
			}
		}
		return string(b)
	case 0: // emptied
		return ""
	case 1: // last lines removed
		k := t.Range(1, len(lines))
		return strings.Join(lines[:len(lines)-k], "")
	case 2: // every line shortened
		var b strings.Builder
		for _, l := range lines {
			body := strings.TrimRight(l, "\r\n")
			eol := l[len(body):]
			b.WriteString(body[:len(body)/2])
			b.WriteString(eol)
		}
		return b.String()
	case 3: // unrelated lines inserted at the top
		return genContent(t, sw, limit, t.Range(1, 3)) + "\n" + old
	case 4: // replaced by something else entirely
		return genContent(t, sw, limit, t.Range(1, 6))
	default: // truncated in the middle of a line (a torn write)
		return old[:t.Draw(len(old)+1)]
	}
}
