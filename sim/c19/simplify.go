package c19

import (
	"encoding/json"
	"fmt"
	"strings"

	"verifsim/core"
)

// SimplifyCase is the structured pass that follows tape shrinking: drop
// operations, reporters, files and lines while the same violation class
// persists. It works on the materialised case, so the result is still a
// self-contained replay.
func (e Engine) SimplifyCase(v *core.Violation, opt core.RunOpt) *core.Violation {
	var c Case
	if json.Unmarshal(v.Case, &c) != nil {
		return v
	}
	execs := 0
	still := func(x *Case) bool {
		execs++
		if execs > 1500 {
			return false
		}
		f, _ := Execute(x, nil)
		return f != nil && f.sig == v.Sig
	}
	clone := func(x *Case) *Case {
		b, _ := json.Marshal(x)
		var y Case
		json.Unmarshal(b, &y)
		return &y
	}
	cur := &c
	if !still(cur) {
		return v
	}
	changed := true
	for changed {
		changed = false
		// drop single operations (from the end: the failing report is usually last)
		for i := len(cur.Ops) - 1; i >= 0; i-- {
			y := clone(cur)
			y.Ops = append(y.Ops[:i], y.Ops[i+1:]...)
			if still(y) {
				cur, changed = y, true
			}
		}
		// fewer reporters
		if cur.Reporters > 1 {
			y := clone(cur)
			y.Reporters = 1
			for i := range y.Ops {
				y.Ops[i].R = 0
			}
			if still(y) {
				cur, changed = y, true
			}
		}
		// drop a file nobody refers to
		for fi := len(cur.Files) - 1; fi >= 0 && len(cur.Files) > 1; fi-- {
			used := false
			for _, op := range cur.Ops {
				if op.F == fi {
					used = true
				}
			}
			for _, f := range cur.Files {
				if f.RemapName == cur.Files[fi].Name && f.Name != cur.Files[fi].Name {
					used = true
				}
			}
			if used {
				continue
			}
			y := clone(cur)
			y.Files = append(y.Files[:fi], y.Files[fi+1:]...)
			for i := range y.Ops {
				if y.Ops[i].F > fi {
					y.Ops[i].F--
				}
			}
			if still(y) {
				cur, changed = y, true
			}
		}
		// drop remaps
		for fi := range cur.Files {
			if cur.Files[fi].RemapFrom > 0 {
				y := clone(cur)
				y.Files[fi].RemapFrom, y.Files[fi].RemapName, y.Files[fi].RemapLine, y.Files[fi].RemapCol = 0, "", 0, 0
				if still(y) {
					cur, changed = y, true
				}
			}
		}
		// blank out lines no report points at (keeps line numbers stable)
		for fi := range cur.Files {
			lines := strings.SplitAfter(string(cur.Files[fi].Content), "\n")
			for li := range lines {
				body := strings.TrimRight(lines[li], "\r\n")
				if len(body) <= 1 {
					continue
				}
				y := clone(cur)
				nl := append([]string(nil), lines...)
				nl[li] = "x" + lines[li][len(body):]
				y.Files[fi].Content = core.Text(strings.Join(nl, ""))
				// keep positions valid: only if no report refers to that line
				ref := false
				for _, op := range y.Ops {
					if op.Kind == "report" && op.F == fi && op.Line == li+1 {
						ref = true
					}
				}
				if !ref && still(y) {
					cur, changed = y, true
					lines = nl
				}
			}
		}
	}
	f, h := Execute(cur, nil)
	if f == nil || f.sig != v.Sig {
		return v
	}
	out := *v
	out.Case, _ = json.Marshal(cur)
	out.Detail = f.detail
	out.EventHash = fmt.Sprintf("%016x", h)
	out.Tape = nil // the case was edited beyond what the tape generates; the case is the replay
	return &out
}
