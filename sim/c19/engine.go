// Package c19 is the disk-sim for property C19: the reporter performs deferred
// reads through pass.ReadFile at report time and keeps a per-reporter cache.
// A seeded operation sequence (report / edit / arm-fault) is run against the
// real reporting.Reporter over a simulated disk; every emitted message is
// judged by a reference renderer written from the property text.
package c19

import (
	"encoding/json"
	"errors"
	"fmt"
	"go/token"
	"os"
	"path/filepath"
	"strings"
	"sync"

	"golang.org/x/tools/go/analysis"

	"github.com/a14e/gogreement/src/reporting"
	"github.com/a14e/gogreement/src/util"

	"verifsim/core"
)

type Engine struct{}

func init() { core.Register(Engine{}) }

func (Engine) ID() string { return "C19" }

// ---------------------------------------------------------------- case model

type File struct {
	Name    string    `json:"name"`
	Content core.Text `json:"content"` // as parsed (positions refer to this)
	// Remap: from line RemapFrom on, positions are attributed (//line style)
	// to RemapName:RemapLine; RemapCol 0 = no column info.
	RemapFrom int    `json:"remap_from,omitempty"`
	RemapName string `json:"remap_name,omitempty"`
	RemapLine int    `json:"remap_line,omitempty"`
	RemapCol  int    `json:"remap_col,omitempty"`
}

type Op struct {
	Kind string `json:"kind"` // report | edit | fault | clear
	R    int    `json:"r,omitempty"`
	F    int    `json:"f"`
	Line int    `json:"line,omitempty"`
	Col  int    `json:"col,omitempty"`
	Code string `json:"code,omitempty"`
	Msg  string `json:"msg,omitempty"`
	// edit
	NewContent *core.Text `json:"new_content,omitempty"`
	// fault: eio | enoent | short | empty ; Sticky = stays armed until clear
	Fault  string `json:"fault,omitempty"`
	Cut    int    `json:"cut,omitempty"`
	Sticky bool   `json:"sticky,omitempty"`
}

type Case struct {
	Files     []File `json:"files"`
	Reporters int    `json:"reporters"`
	IgnoreSet string `json:"ignore_set"` // nil | empty
	Ops       []Op   `json:"ops"`
}

// ---------------------------------------------------------------- simulated disk

type armed struct {
	kind   string
	cut    int
	sticky bool
}

type disk struct {
	files    map[string][]byte
	faults   map[string]*armed
	served   map[string][][]byte         // every version successfully served, per name
	servedTo map[int]map[string][][]byte // ... and per reporter
	failed   map[int]map[string]bool
	curRep   int
	log      *core.Hasher
	agg      *core.Agg
	reads    int
	callErr  bool // a read failed during the current report call
}

var errEIO = errors.New("simdisk: input/output error")
var errENOENT = errors.New("simdisk: no such file or directory")

func (d *disk) ReadFile(name string) ([]byte, error) {
	d.reads++
	d.log.Str("read")
	d.log.Str(name)
	fail := func(kind string, err error) ([]byte, error) {
		d.agg.Inc("fault_fired." + kind)
		d.log.Str("err:" + kind)
		if d.failed[d.curRep] == nil {
			d.failed[d.curRep] = map[string]bool{}
		}
		d.failed[d.curRep][name] = true
		d.callErr = true
		return nil, err
	}
	content, ok := d.files[name]
	f := d.faults[name]
	if f != nil && !f.sticky {
		delete(d.faults, name)
	}
	if f != nil {
		switch f.kind {
		case "eio":
			return fail("eio", errEIO)
		case "enoent":
			return fail("enoent", errENOENT)
		case "short":
			if ok {
				cut := f.cut
				if cut > len(content) {
					cut = len(content)
				}
				content = content[:cut]
				d.agg.Inc("fault_fired.short_read")
				d.log.Str("short")
			}
		case "empty":
			if ok {
				content = nil
				d.agg.Inc("fault_fired.empty_read")
				d.log.Str("empty")
			}
		}
	}
	if !ok {
		return fail("refused_unknown_file", fmt.Errorf("simdisk: pass does not list %q: %w", name, errENOENT))
	}
	out := append([]byte{}, content...)
	d.served[name] = append(d.served[name], out)
	if d.servedTo == nil {
		d.servedTo = map[int]map[string][][]byte{}
	}
	if d.servedTo[d.curRep] == nil {
		d.servedTo[d.curRep] = map[string][][]byte{}
	}
	d.servedTo[d.curRep][name] = append(d.servedTo[d.curRep][name], out)
	d.log.Int(len(out))
	d.log.Bytes(out)
	return append([]byte{}, out...), nil
}

// ---------------------------------------------------------------- violation adapter

type viol struct {
	code string
	pos  token.Pos
	msg  string
}

func (v viol) GetCode() string    { return v.code }
func (v viol) GetPos() token.Pos  { return v.pos }
func (v viol) GetMessage() string { return v.msg }

// ---------------------------------------------------------------- execution

type failure struct {
	sig    string
	detail string
}

// Execute runs a materialised case against the real reporter.
func Execute(c *Case, agg *core.Agg) (*failure, uint64) {
	log := core.NewHasher()
	fset := token.NewFileSet()
	d := &disk{files: map[string][]byte{}, faults: map[string]*armed{}, served: map[string][][]byte{},
		failed: map[int]map[string]bool{}, log: log, agg: agg}
	tfiles := make([]*token.File, len(c.Files))
	for i, f := range c.Files {
		tf := fset.AddFile(f.Name, -1, len(f.Content))
		tf.SetLinesForContent([]byte(f.Content))
		if f.RemapFrom > 0 && f.RemapFrom <= tf.LineCount() {
			off := tf.Offset(tf.LineStart(f.RemapFrom))
			tf.AddLineColumnInfo(off, f.RemapName, f.RemapLine, f.RemapCol)
		}
		tfiles[i] = tf
		d.files[f.Name] = []byte(f.Content)
	}
	var msgs []string
	pass := &analysis.Pass{
		Fset:     fset,
		ReadFile: d.ReadFile,
		Report:   func(dg analysis.Diagnostic) { msgs = append(msgs, dg.Message) },
	}
	reps := make([]*reporting.Reporter, c.Reporters)
	for i := range reps {
		var is *util.IgnoreSet
		if c.IgnoreSet == "empty" {
			is = &util.IgnoreSet{}
		}
		reps[i] = reporting.NewReporter(pass, is)
	}
	limit := reporting.MaxLineLength
	// no fault, no edit, no remap anywhere in the case: what is on the disk is what was parsed
	historyFree := true
	for _, op := range c.Ops {
		if op.Kind == "edit" || op.Kind == "fault" {
			historyFree = false
		}
	}
	for _, f := range c.Files {
		if f.RemapFrom > 0 {
			historyFree = false
		}
	}

	for oi, op := range c.Ops {
		log.Str(op.Kind)
		switch op.Kind {
		case "edit":
			if op.F < len(c.Files) && op.NewContent != nil {
				d.files[c.Files[op.F].Name] = []byte(*op.NewContent)
				agg.Inc("op.edit")
			}
		case "fault":
			if op.F < len(c.Files) {
				d.faults[c.Files[op.F].Name] = &armed{kind: op.Fault, cut: op.Cut, sticky: op.Sticky}
				agg.Inc("fault_armed." + op.Fault)
			}
		case "clear":
			if op.F < len(c.Files) {
				delete(d.faults, c.Files[op.F].Name)
			}
		case "report":
			if op.F >= len(c.Files) || op.R >= len(reps) {
				continue
			}
			tf := tfiles[op.F]
			if op.Line < 1 || op.Line > tf.LineCount() {
				continue
			}
			p := int(tf.LineStart(op.Line)) + op.Col - 1
			if p > tf.Base()+tf.Size() || op.Col < 1 {
				continue
			}
			pos := token.Pos(p)
			position := fset.Position(pos)
			agg.Inc("op.report")
			d.curRep, d.callErr = op.R, false
			msgs = msgs[:0]
			readsBefore := d.reads
			pan := func() (p any) {
				defer func() { p = recover() }()
				reps[op.R].ReportViolation(viol{op.Code, pos, op.Msg})
				return nil
			}()
			if pan != nil {
				return &failure{"panic", fmt.Sprintf("op %d: ReportViolation panicked: %v", oi, pan)}, log.Sum()
			}
			if len(msgs) != 1 {
				return &failure{"message-count", fmt.Sprintf("op %d: %d messages emitted for one violation", oi, len(msgs))}, log.Sum()
			}
			msg := msgs[0]
			log.Str(msg)
			if d.reads == readsBefore {
				agg.Inc("probe.report_served_from_cache")
			}
			if historyFree {
				// the cache must be transparent: a fresh reporter renders the same message
				var fresh []string
				p2 := &analysis.Pass{Fset: fset, ReadFile: func(name string) ([]byte, error) { return append([]byte(nil), d.files[name]...), nil },
					Report: func(dg analysis.Diagnostic) { fresh = append(fresh, dg.Message) }}
				func() {
					defer func() { recover() }()
					var is *util.IgnoreSet
					if c.IgnoreSet == "empty" {
						is = &util.IgnoreSet{}
					}
					reporting.NewReporter(p2, is).ReportViolation(viol{op.Code, pos, op.Msg})
				}()
				agg.Inc("probe.compared_with_fresh_reporter")
				if len(fresh) == 1 && fresh[0] != msg {
					return &failure{"history-dependent-rendering", fmt.Sprintf("op %d: report by reporter %d at %s:%d:%d: the message differs from what a fresh reporter renders for the same violation over the same, unchanged file (no fault, no edit in this run) - the reporter's cache is not transparent\nthrough the used reporter:\n%s\nthrough a fresh reporter:\n%s",
						oi, op.R, position.Filename, position.Line, position.Column, indent(clip(msg, 1200)), indent(clip(fresh[0], 1200)))}, log.Sum()
				}
			}
			if f := judge(msg, position, d, op.R, limit, agg); f != nil {
				f.detail = fmt.Sprintf("op %d: report by reporter %d at %s:%d:%d (pos in parsed file %s line %d col %d)\n%s\nmessage was:\n%s",
					oi, op.R, position.Filename, position.Line, position.Column, c.Files[op.F].Name, op.Line, op.Col, f.detail, indent(clip(msg, 1500)))
				return f, log.Sum()
			}
		}
	}
	return nil, log.Sum()
}

func indent(s string) string { return "    " + strings.ReplaceAll(s, "\n", "\n    ") }
func clip(s string, n int) string {
	if len(s) <= n {
		return s
	}
	return s[:n] + fmt.Sprintf("…(%d bytes more)", len(s)-n)
}

// ---------------------------------------------------------------- engine glue

var decoyOnce sync.Once

// ensureDecoys writes the decoy files (idempotent; same bytes from every process).
func ensureDecoys() {
	decoyOnce.Do(func() {
		os.MkdirAll(DecoyDir, 0o755)
		var b strings.Builder
		for i := 1; i <= 140; i++ {
			fmt.Fprintf(&b, "DECOY line %d: this text is on the real disk only, the simulated disk never serves it\n", i)
		}
		for _, n := range []string{"f0.go", "f1.go", "f2.go", "generated.y"} {
			p := filepath.Join(DecoyDir, n)
			if old, err := os.ReadFile(p); err != nil || string(old) != b.String() {
				tmp := p + fmt.Sprintf(".%d", os.Getpid())
				os.WriteFile(tmp, []byte(b.String()), 0o644)
				os.Rename(tmp, p)
			}
		}
	})
}

func (e Engine) Run(t *core.Tape, opt core.RunOpt, agg *core.Agg) *core.Violation {
	ensureDecoys()
	if opt.Leg == "pipeline" {
		return e.runPipe(t, agg)
	}
	c := Generate(t, opt, agg)
	return e.finish(c, agg)
}

func (e Engine) finish(c *Case, agg *core.Agg) *core.Violation {
	f, h := Execute(c, agg)
	agg.SetRunHash(h)
	if agg != nil {
		agg.Inc("executions")
		classify(c, agg, h)
	}
	if f == nil {
		return nil
	}
	raw, _ := json.Marshal(c)
	return &core.Violation{Property: "C19", Sig: f.sig, Detail: f.detail, Case: raw, EventHash: fmt.Sprintf("%016x", h)}
}

func (e Engine) ReplayCase(raw json.RawMessage, opt core.RunOpt, agg *core.Agg) (*core.Violation, error) {
	ensureDecoys()
	var wrap struct {
		Pipeline *PipeCase `json:"pipeline"`
	}
	if json.Unmarshal(raw, &wrap) == nil && wrap.Pipeline != nil {
		f, h, err := executePipe(wrap.Pipeline, core.ReplayTape(wrap.Pipeline.Tape), agg)
		if err != nil {
			return nil, err
		}
		return e.finishPipe(wrap.Pipeline, f, h, nil, agg), nil
	}
	var c Case
	if err := json.Unmarshal(raw, &c); err != nil {
		return nil, err
	}
	return e.finish(&c, agg), nil
}

// classify counts distinct / non-trivial cases for the evidence file.
func classify(c *Case, agg *core.Agg, eventHash uint64) {
	faulty := false
	reports := 0
	for _, op := range c.Ops {
		switch op.Kind {
		case "fault", "edit":
			faulty = true
		case "report":
			reports++
		}
	}
	for _, f := range c.Files {
		if f.RemapFrom > 0 {
			faulty = true
		}
	}
	if faulty {
		agg.Inc("class.fault_injecting_runs")
	} else {
		agg.Inc("class.fault_free_runs")
	}
	agg.Distinct("event_logs", eventHash)
	if reports >= 1 {
		agg.Distinct("nontrivial", eventHash)
	}
	agg.Sample("case", 3, c)
}
