package c06

import (
	"encoding/json"
	"fmt"
	"sort"
	"strings"

	"verifsim/core"
	"verifsim/driver"
	"verifsim/sched"
	"verifsim/world"
)

func allRoots(w *world.World) []string {
	var r []string
	for _, p := range w.Pkgs {
		r = append(r, p.Path)
	}
	return r
}

func lightSched(t *core.Tape) sched.Config {
	switch t.Draw(4) {
	case 0:
		return sched.Config{Strategy: sched.Sequential}
	case 1:
		return sched.Config{Strategy: sched.RandomWalk, MeanGap: 400}
	case 2:
		return sched.Config{Strategy: sched.RandomWalk, MeanGap: 40, Stall: t.Draw(2)}
	}
	return sched.Config{Strategy: sched.PCT, PCTDepth: 2, Horizon: 20000}
}

func importersOf(w *world.World, path string) []string {
	var out []string
	for _, p := range w.Pkgs {
		for _, ip := range p.Imports {
			if ip == path {
				out = append(out, p.Path)
			}
		}
	}
	return out
}

func unrelatedTo(w *world.World, i int) []string {
	rel := map[int]bool{i: true}
	for _, j := range w.TransitiveDeps(i) {
		rel[j] = true
	}
	for k := range w.Pkgs {
		for _, j := range w.TransitiveDeps(k) {
			if j == i {
				rel[k] = true
			}
		}
	}
	var out []string
	for k, p := range w.Pkgs {
		if !rel[k] {
			out = append(out, p.Path)
		}
	}
	return out
}

func shuffle(t *core.Tape, a []string) []string {
	a = append([]string(nil), a...)
	for i := len(a) - 1; i > 0; i-- {
		j := t.Draw(i + 1)
		a[i], a[j] = a[j], a[i]
	}
	return a
}

func genCase(t *core.Tape, opt core.RunOpt) *Case {
	w, m := world.Generate(t, world.GenOpt{MinPkgs: 3, MaxPkgs: 7, NeedDepth2: true, CleanChance: 2, ReadFaults: true, LineDirectives: true, DirExclude: true, MultiModule: true, StdImports: true, Bulk: true})
	c := &Case{World: w}
	add := func(label, variant string, ex driver.Exec, sc sched.Config) {
		if ex.Rerun == 0 && ex.Driver != "vet" {
			ex.Rerun = -1
		}
		c.Execs = append(c.Execs, ExecSpec{Label: label, Variant: variant, Ex: ex, Sched: sc})
	}
	all := allRoots(w)
	add("checker/share/all/sequential", "base", driver.Exec{Driver: "checker", Transport: "share", Roots: all, Rerun: -1}, sched.Config{Strategy: sched.Sequential})
	add("checker/gob/all", "base", driver.Exec{Driver: "checker", Transport: "gob", Roots: all, Rerun: -1}, lightSched(t))
	add("vet/files/all", "base", driver.Exec{Driver: "vet", Transport: "files", Roots: all, Rerun: -1}, lightSched(t))
	// single packages and partial run sets
	picks := t.Range(1, 3)
	if opt.Tier == "thorough" {
		picks = t.Range(2, 4)
	}
	for k := 0; k < picks; k++ {
		i := t.Draw(len(w.Pkgs))
		p := w.Pkgs[i].Path
		add("checker/share/only:"+p, "base", driver.Exec{Driver: "checker", Transport: []string{"share", "gob"}[t.Draw(2)], Roots: []string{p}, Rerun: -1}, lightSched(t))
		add("vet/files/only:"+p, "base", driver.Exec{Driver: "vet", Transport: "files", Roots: []string{p}, Rerun: -1}, lightSched(t))
		switch t.Draw(3) {
		case 0:
			roots := append([]string{p}, importersOf(w, p)...)
			add("with-importers:"+p, "base", driver.Exec{Driver: []string{"checker", "vet"}[t.Draw(2)], Transport: "share", Roots: shuffle(t, roots), Rerun: -1}, lightSched(t))
		case 1:
			roots := append([]string{p}, unrelatedTo(w, i)...)
			add("with-unrelated:"+p, "base", driver.Exec{Driver: []string{"checker", "vet"}[t.Draw(2)], Transport: "share", Roots: shuffle(t, roots), Rerun: -1}, lightSched(t))
		}
	}
	add("checker/share/all/permuted", "base", driver.Exec{Driver: "checker", Transport: "share", Roots: shuffle(t, all), Rerun: -1}, lightSched(t))
	add("vet/files/all/unit-executed-twice", "base", driver.Exec{Driver: "vet", Transport: "files", Roots: shuffle(t, all), Rerun: t.Draw(len(all))}, lightSched(t))
	// metamorphic variants
	drv := func() driver.Exec {
		if t.Chance(1, 2) {
			return driver.Exec{Driver: "vet", Transport: "files", Roots: all, Rerun: -1}
		}
		return driver.Exec{Driver: "checker", Transport: "share", Roots: all, Rerun: -1}
	}
	x := t.Draw(len(w.Pkgs))
	add(fmt.Sprintf("annotations-of-%s-stripped", w.Pkgs[x].Path), fmt.Sprintf("strip:%d", x), drv(), lightSched(t))
	x = t.Draw(len(w.Pkgs))
	add(fmt.Sprintf("annotations-of-%s-saturated", w.Pkgs[x].Path), fmt.Sprintf("saturate:%d", x), drv(), lightSched(t))
	x = t.Draw(len(w.Pkgs))
	add(fmt.Sprintf("bodies-of-%s-edited", w.Pkgs[x].Path), fmt.Sprintf("bodies:%d", x), drv(), lightSched(t))
	if t.Chance(1, 2) {
		e := drv()
		e.Roots = append(append([]string(nil), all...), w.Module+"/zunrel")
		add("unrelated-package-added", "unrelated", e, lightSched(t))
	}
	for i := range c.Execs {
		if c.Execs[i].Ex.Driver == "vet" {
			c.Execs[i].Ex.Transport = "files"
		} else if i > 0 && t.Chance(1, 2) {
			// the standalone driver parses all files concurrently: position bases vary from run to run
			c.Execs[i].Ex.ParseSeed = uint64(1 + t.Draw(1<<20))
		}
	}
	// expectation oracles need worlds without @ignore / exclude-checks
	if m.Clean {
		sib, locs := world.Sibling(w, m)
		if len(locs) > 0 {
			c.Sibling = sib
			ids := make([]int, 0, len(locs))
			for id := range locs {
				ids = append(ids, id)
			}
			sort.Ints(ids)
			// same type NAME from several packages in one file of the importer?
			type fk struct {
				pkg        int
				file, name string
			}
			deps := map[fk]map[int]bool{}
			for _, u := range m.Uses {
				k := fk{u.Pkg, u.File, u.Type}
				if deps[k] == nil {
					deps[k] = map[int]bool{}
				}
				deps[k][u.Dep] = true
			}
			for _, id := range ids {
				u := m.Uses[id]
				c.SibPairs = append(c.SibPairs, SibPair{
					NameClash: len(deps[fk{u.Pkg, u.File, u.Type}]) > 1,
					UserPkg:   w.Pkgs[u.Pkg].Path, UserFile: u.File, UserLine: u.Line,
					DeclPkg: w.Pkgs[u.Dep].Path, SibFile: locs[id].File, SibLine: locs[id].Line, Stmt: u.Text + " [type " + u.Type + "]",
				})
			}
			add("sibling-world/checker/share/all", "sibling", driver.Exec{Driver: "checker", Transport: "share", Roots: allRoots(sib), Rerun: -1}, sched.Config{Strategy: sched.Sequential})
		}
		c.PkgoExpect = pkgoExpectations(w, m)
	}
	return c
}

// mention kinds per shape
var typeMention = map[string]bool{"lit": true, "lit-ptr": true, "lit-elided": true, "new": true, "var": true, "var-ptr": true, "funclit-param": true, "signature": true, "field": true}

func notAllowed(lists [][]string, user *world.PkgDecl) bool {
	if len(lists) == 0 {
		return false // no @packageonly at all: never reported
	}
	for _, e := range world.AllowedUnion(lists) {
		if e == user.Path || e == user.Name {
			return false
		}
	}
	return true
}

func findType(pd *world.PkgDecl, name string) *world.TypeDecl {
	for _, t := range pd.Types {
		if t.Name == name {
			return t
		}
	}
	return nil
}

// pkgoExpectations derives, from the declaration model (i.e. from the
// annotation text) and the property statement, which PKGO codes must appear on
// each generated use line of the non-test, non-excluded use files.
func pkgoExpectations(w *world.World, m *world.Meta) []PkgoExpectation {
	var out []PkgoExpectation
	type fk struct {
		pkg  int
		file string
	}
	reported := map[fk]map[string]bool{} // PKGO01 once per file and type
	byLine := map[string]*PkgoExpectation{}
	var order []string
	for _, u := range m.Uses {
		if u.File != "use.go" && u.File != "more.go" {
			continue
		}
		user := m.Decls[u.Pkg]
		key := fmt.Sprintf("%d|%s|%d", u.Pkg, u.File, u.Line)
		pe := byLine[key]
		if pe == nil {
			pe = &PkgoExpectation{Pkg: user.Path, File: u.File, Line: u.Line}
			byLine[key] = pe
			order = append(order, key)
		}
		if u.Dep == u.Pkg {
			continue // same package: always allowed
		}
		// does the user import the declaring package directly? (indirect shapes may not)
		direct := user.BlankImport == u.Dep // a blank import is a direct import, too
		for _, j := range user.Imports {
			if j == u.Dep {
				direct = true
			}
		}
		if !direct {
			continue
		}
		decl := m.Decls[u.Dep]
		td := findType(decl, u.Type)
		if td == nil {
			continue
		}
		shape := strings.TrimPrefix(u.Shape, "ctorfn-")
		switch {
		case typeMention[shape]:
			if notAllowed(td.PkgOnly, user) {
				k := fk{u.Pkg, u.File}
				if reported[k] == nil {
					reported[k] = map[string]bool{}
				}
				id := decl.Path + "." + td.Name
				if !reported[k][id] {
					reported[k][id] = true
					pe.Codes = append(pe.Codes, "PKGO01")
					pe.Why += fmt.Sprintf("first mention of type %s in this file, lists %v; ", td.Name, td.PkgOnly)
				}
			}
		case shape == "call-func":
			if notAllowed(decl.FuncPkgOnly, user) {
				pe.Codes = append(pe.Codes, "PKGO02")
				pe.Why += fmt.Sprintf("call of %s, lists %v; ", decl.FuncName(), decl.FuncPkgOnly)
			}
		case u.Shape == "call-new":
			if notAllowed(td.NewPkgOnly, user) {
				pe.Codes = append(pe.Codes, "PKGO02")
				pe.Why += fmt.Sprintf("call of New%s, lists %v; ", td.Name, td.NewPkgOnly)
			}
		case u.Shape == "call-pm" || u.Shape == "method-value" || u.Shape == "indirect-call":
			if notAllowed(td.PMPkgOnly, user) {
				pe.Codes = append(pe.Codes, "PKGO03")
				pe.Why += fmt.Sprintf("method %s.PM, lists %v; ", td.Name, td.PMPkgOnly)
			}
		case u.Shape == "call-vm":
			if notAllowed(td.VMPkgOnly, user) {
				pe.Codes = append(pe.Codes, "PKGO03")
				pe.Why += fmt.Sprintf("method %s.VM, lists %v; ", td.Name, td.VMPkgOnly)
			}
		}
	}
	for _, k := range order {
		pe := byLine[k]
		sort.Strings(pe.Codes)
		out = append(out, *pe)
	}
	return out
}

func (e Engine) Run(t *core.Tape, opt core.RunOpt, agg *core.Agg) *core.Violation {
	c, f, h, err := e.run(t, opt, agg)
	return e.finish(c, f, h, err, agg)
}

func (e Engine) run(t *core.Tape, opt core.RunOpt, agg *core.Agg) (*Case, *failure, uint64, error) {
	c := genCase(t, opt)
	marks := map[int]int{}
	f, h, err := Execute(c, func(int) sched.Chooser { return t }, func(i int, start bool) {
		if start {
			marks[i] = t.Consumed()
		} else {
			c.Execs[i].Tape = t.Recorded()[marks[i]:]
		}
	}, agg)
	return c, f, h, err
}

func (e Engine) finish(c *Case, f *failure, h uint64, err error, agg *core.Agg) *core.Violation {
	if err != nil {
		panic(err) // infrastructure trouble must never look like a violation
	}
	agg.SetRunHash(h)
	if agg != nil {
		agg.Inc("worlds")
		agg.Add("world.packages", int64(len(c.World.Pkgs)))
		agg.Distinct("worlds", c.World.Hash())
		if c.Sibling != nil {
			agg.Inc("worlds_with_sibling_oracle")
		}
		agg.Sample("case", 1, sampleOf(c))
	}
	if f == nil {
		return nil
	}
	raw, _ := json.Marshal(c)
	return &core.Violation{Property: "C06", Sig: f.sig, Detail: f.detail, Case: raw, EventHash: fmt.Sprintf("%016x", h)}
}

func sampleOf(c *Case) any {
	type ps struct {
		Path    string   `json:"path"`
		Imports []string `json:"imports"`
		Files   []string `json:"files"`
	}
	var pk []ps
	for _, p := range c.World.Pkgs {
		var fs []string
		for _, f := range p.Files {
			fs = append(fs, fmt.Sprintf("%s (%d bytes)", f.Name, len(f.Src)))
		}
		pk = append(pk, ps{p.Path, p.Imports, fs})
	}
	var ex []string
	for _, e := range c.Execs {
		ex = append(ex, fmt.Sprintf("%s [world %s] driver=%s transport=%s roots=%d rerun=%d decisions=%d", e.Label, e.Variant, e.Ex.Driver, e.Ex.Transport, len(e.Ex.Roots), e.Ex.Rerun, len(e.Tape)))
	}
	decl := ""
	for _, f := range c.World.Pkgs[len(c.World.Pkgs)-1].Files {
		if f.Name == "use.go" {
			decl = clip(f.Src, 1800)
		}
	}
	return map[string]any{"config": c.World.Cfg, "packages": pk, "executions": ex, "sibling_pairs": len(c.SibPairs), "pkgo_expectations": len(c.PkgoExpect), "one_using_file": decl}
}

func (e Engine) ReplayCase(raw json.RawMessage, opt core.RunOpt, agg *core.Agg) (*core.Violation, error) {
	var c Case
	if err := json.Unmarshal(raw, &c); err != nil {
		return nil, err
	}
	f, h, err := Execute(&c, func(i int) sched.Chooser { return core.ReplayTape(c.Execs[i].Tape) }, func(int, bool) {}, agg)
	if err != nil {
		return nil, err
	}
	return e.finish(&c, f, h, nil, agg), nil
}
