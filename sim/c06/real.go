package c06

import (
	"bytes"
	"encoding/json"
	"fmt"
	"os"
	"os/exec"
	"path/filepath"
	"regexp"
	"sort"
	"strconv"
	"strings"
	"sync"

	"verifsim/core"
	"verifsim/driver"
	"verifsim/sched"
	"verifsim/world"
)

// The validation legs: the same generated worlds, written to the real disk,
// through the real drivers - x/tools checker.Analyze in this process
// (parallel / sequential, with and without the fact sanity check), the
// uninstrumented gogreement binary (also with -debug=s / -debug=p), and
// `go vet -vettool=gogreement`. They are not simulation (their schedule is
// not ours and they do not replay); they show the stub drivers faithful and
// cover "both drivers" with the genuine article.

type jsonDiag struct {
	Category string `json:"category"`
	Posn     string `json:"posn"`
	Message  string `json:"message"`
	Related  []struct {
		Posn    string `json:"posn"`
		Message string `json:"message"`
	} `json:"related"`
	Fixes []json.RawMessage `json:"suggested_fixes"`
}

var posnRe = regexp.MustCompile(`^(.*):(\d+):(\d+)$`)
var posnNoColRe = regexp.MustCompile(`^(.*):(\d+)$`) // after a //line directive without column

// parseTree turns the -json output of a go/analysis driver into an Outcome.
func parseTree(out []byte, root string) (*driver.Outcome, error) {
	// drop the "# pkg" header lines of go vet
	var clean bytes.Buffer
	for _, ln := range bytes.Split(out, []byte("\n")) {
		if bytes.HasPrefix(ln, []byte("#")) {
			continue
		}
		clean.Write(ln)
		clean.WriteByte('\n')
	}
	o := driver.NewOutcome()
	dec := json.NewDecoder(&clean)
	for dec.More() {
		var tree map[string]map[string]json.RawMessage
		if err := dec.Decode(&tree); err != nil {
			return nil, fmt.Errorf("driver output is not a JSON tree: %v\n%.600s", err, out)
		}
		for id, byAnalyzer := range tree {
			path := id // keyed by package ID: variants are kept apart
			if strings.HasSuffix(world.BasePath(id), ".test") || strings.HasSuffix(id, ".test") {
				continue // the generated test main package
			}
			if _, ok := o.Diags[path]; !ok {
				o.Diags[path] = nil
			}
			for an, raw := range byAnalyzer {
				var diags []jsonDiag
				if err := json.Unmarshal(raw, &diags); err != nil {
					var e struct {
						Err string `json:"error"`
					}
					json.Unmarshal(raw, &e)
					o.Errors[path] = append(o.Errors[path], an+": "+e.Err)
					continue
				}
				for _, d := range diags {
					m := posnRe.FindStringSubmatch(d.Posn)
					if m == nil {
						if m2 := posnNoColRe.FindStringSubmatch(d.Posn); m2 != nil {
							m = []string{m2[0], m2[1], m2[2], "0"}
						}
					}
					if m == nil {
						return nil, fmt.Errorf("bad posn %q", d.Posn)
					}
					line, _ := strconv.Atoi(m[2])
					col, _ := strconv.Atoi(m[3])
					var rest strings.Builder
					for _, r := range d.Related {
						fmt.Fprintf(&rest, "related=%s %q;", strings.TrimPrefix(r.Posn, root), r.Message)
					}
					if len(d.Fixes) > 0 {
						fmt.Fprintf(&rest, "fixes=%d;", len(d.Fixes))
					}
					if d.Category != "" {
						fmt.Fprintf(&rest, "category=%s;", d.Category)
					}
					o.Diags[path] = append(o.Diags[path], driver.Diag{Analyzer: an, File: strings.TrimPrefix(m[1], root), Line: line, Col: col, Msg: strings.ReplaceAll(d.Message, root, ""), Rest: rest.String()})
				}
			}
		}
	}
	return o.MergeVariants(), nil
}

func cfgFlags(c world.Config) []string {
	st := "false"
	if c.ScanTests {
		st = "true"
	}
	return []string{"-config.scan-tests=" + st, "-config.exclude-paths=" + c.ExcludePaths, "-config.exclude-checks=" + c.ExcludeChecks}
}

func runTool(dir string, name string, args ...string) ([]byte, error) {
	cmd := exec.Command(name, args...)
	cmd.Dir = dir
	cmd.Env = append(os.Environ(), "GOFLAGS=-mod=mod", "GOPROXY=off", "GOTOOLCHAIN=local", "GOWORK=off")
	if g := os.Getenv("VERIF_GO"); g != "" {
		// go/packages inside the gogreement binary runs `go list`: it must find the right toolchain
		cmd.Env = append(cmd.Env, "PATH="+filepath.Dir(g)+":"+os.Getenv("PATH"))
	}
	var so, se bytes.Buffer
	cmd.Stdout, cmd.Stderr = &so, &se
	err := cmd.Run()
	all := append(so.Bytes(), se.Bytes()...)
	if err != nil {
		if _, ok := err.(*exec.ExitError); !ok {
			return all, err
		}
	}
	return all, nil
}

type realResult struct {
	viol  *core.Violation
	infra error
	stats map[string]int64
}

func realLegs(tier string, seed uint64, realBin string, a *core.Agg) ([]*core.Violation, error) {
	n := 24
	if tier == "thorough" {
		n = 320
	}
	goBin := os.Getenv("VERIF_GO")
	if goBin == "" {
		goBin = "go"
	}
	base := filepath.Join(os.Getenv("VERIF_SCRATCH_DIR"), "real")
	if os.Getenv("VERIF_SCRATCH_DIR") == "" {
		base = filepath.Join(core.ScratchDir(), "verifsim-C06-real")
	}
	os.RemoveAll(base)
	defer os.RemoveAll(base)

	// phase 1 (parallel): the external processes
	type job struct {
		i                             int
		w                             *world.World
		dir                           string
		standalone, standaloneSP, vet *driver.Outcome
		single                        string
		singleStandalone, singleVet   *driver.Outcome
		err                           error
	}
	jobs := make([]*job, n)
	for i := range jobs {
		t := core.NewTape(core.Mix(seed, uint64(1<<40+i)))
		// every third world carries an exclude-paths pattern naming one of its directories:
		// the working directory of the tool differs between the real drivers
		w, _ := world.Generate(t, world.GenOpt{MinPkgs: 3, MaxPkgs: 6, NeedDepth2: true, CleanChance: 2, LineDirectives: true, DirExclude: true, ForceDirExclude: i%3 == 0, StdImports: true})
		jobs[i] = &job{i: i, w: w, dir: filepath.Join(base, fmt.Sprintf("w%d", i)), single: w.Pkgs[t.Draw(len(w.Pkgs))].Path}
	}
	var wg sync.WaitGroup
	sem := make(chan struct{}, 12)
	for _, j := range jobs {
		wg.Add(1)
		go func(j *job) {
			defer wg.Done()
			sem <- struct{}{}
			defer func() { <-sem }()
			if err := driver.WriteModule(j.w, j.dir); err != nil {
				j.err = err
				return
			}
			root := j.dir + "/"
			run := func(tool string, args ...string) *driver.Outcome {
				if j.err != nil {
					return nil
				}
				out, err := runTool(j.dir, tool, args...)
				if err != nil {
					j.err = fmt.Errorf("%s %v: %v\n%.500s", tool, args, err, out)
					return nil
				}
				o, err := parseTree(out, root)
				if err != nil {
					j.err = fmt.Errorf("%s %v: %v", tool, args, err)
				}
				return o
			}
			cf := cfgFlags(j.w.Cfg)
			j.standalone = run(realBin, append(append([]string{"-json"}, cf...), "./...")...)
			j.standaloneSP = run(realBin, append(append([]string{"-json", "-debug=sp"}, cf...), "./...")...)
			j.vet = run(goBin, append(append([]string{"vet", "-vettool=" + realBin, "-json"}, cf...), "./...")...)
			rel := "./" + strings.TrimPrefix(strings.TrimPrefix(j.single, j.w.Module), "/")
			j.singleStandalone = run(realBin, append(append([]string{"-json"}, cf...), rel)...)
			j.singleVet = run(goBin, append(append([]string{"vet", "-vettool=" + realBin, "-json"}, cf...), rel)...)
		}(j)
	}
	wg.Wait()

	// phase 2 (sequential, this process): the in-process real driver and the stubs
	var viols []*core.Violation
	for _, j := range jobs {
		if j.err != nil {
			return nil, core.Infra("real-driver leg, world %d: %v", j.i, j.err)
		}
		old := driver.SetRoot(j.dir + "/")
		l, err := driver.LoadAll(j.w)
		if err != nil {
			driver.SetRoot(old)
			return nil, core.Infra("real-driver leg, world %d: %v", j.i, err)
		}
		all := allRoots(j.w)
		type named struct {
			name string
			out  *driver.Outcome
			real bool
		}
		var outs []named
		add := func(name string, o *driver.Outcome, err error, real bool) error {
			if err != nil {
				return core.Infra("real-driver leg, world %d, %s: %v", j.i, name, err)
			}
			outs = append(outs, named{name, o.MergeVariants(), real})
			return nil
		}
		simOut, _, err := driver.RunChecker(l, &driver.Exec{Driver: "checker", Transport: "share", Roots: all, Rerun: -1, Sched: sched.Config{Strategy: sched.Sequential}}, core.NewTape(1))
		if e := add("checker-sim", simOut, err, false); e != nil {
			driver.SetRoot(old)
			return nil, e
		}
		vetSim, _, err := driver.RunVet(j.w, &driver.Exec{Driver: "vet", Transport: "files", Roots: all, Rerun: -1, Sched: sched.Config{Strategy: sched.Sequential}}, core.NewTape(1))
		if e := add("vet-sim", vetSim, err, false); e != nil {
			driver.SetRoot(old)
			return nil, e
		}
		for _, mode := range []struct {
			name        string
			seq, sanity bool
		}{{"checker.Analyze parallel", false, false}, {"checker.Analyze sequential+sanity", true, true}, {"checker.Analyze parallel+sanity", false, true}} {
			o, err := driver.RunRealChecker(l, all, mode.seq, mode.sanity)
			if e := add(mode.name, o, err, true); e != nil {
				driver.SetRoot(old)
				return nil, e
			}
			a.Inc("real.checker_Analyze_in_process_runs")
		}
		driver.SetRoot(old)
		outs = append(outs, named{"gogreement -json ./...", j.standalone, true}, named{"gogreement -json -debug=sp ./...", j.standaloneSP, true}, named{"go vet -vettool=gogreement -json ./...", j.vet, true})
		a.Add("real.gogreement_binary_runs", 3)
		a.Add("real.go_vet_runs", 2)
		a.Inc("real.worlds")

		paths := j.w.OutcomePathsMerged(all)
		sort.Strings(paths)
		// 1. the real drivers among themselves: a disagreement is a C06 violation
		for _, p := range paths {
			ref := j.standalone.PkgString(p) // the reference among real drivers: the standalone binary
			for _, o := range outs {
				if !o.real {
					continue
				}
				a.Inc("real.outcome_comparisons")
				if s := o.out.PkgString(p); s != ref {
					viols = append(viols, realViolation(j.w, seed, j.i, p, "gogreement -json ./...", o.name, ref, s))
				}
			}
			if p == j.single {
				for _, o := range []named{{"gogreement -json " + p + " (only this package named)", j.singleStandalone, true}, {"go vet -vettool=gogreement " + p + " (only this package named)", j.singleVet, true}} {
					a.Inc("real.outcome_comparisons")
					if s := o.out.PkgString(p); s != ref {
						viols = append(viols, realViolation(j.w, seed, j.i, p, "gogreement -json ./...", o.name, ref, s))
					}
				}
			}
		}
		if len(viols) > 0 {
			break
		}
		// 2. only when the real drivers agree: each stub against its real counterpart
		for _, p := range paths {
			for _, pair := range [][2]named{{outs[0], {"gogreement -json ./...", j.standalone, true}}, {outs[1], {"go vet -vettool=gogreement -json ./...", j.vet, true}}} {
				a.Inc("real.stub_vs_real_comparisons")
				if x, y := pair[0].out.PkgString(p), pair[1].out.PkgString(p); x != y {
					return nil, core.Infra("HARNESS BUG: stub driver %s disagrees with its real counterpart %q on world %d, package %s (while all real drivers agree with each other):\n%s(rerun with the same VERIF_SEED to see it again)", pair[0].name, pair[1].name, j.i, p, firstDiff(y, x))
				}
			}
		}
		if len(viols) > 0 {
			break
		}
	}
	return viols, nil
}

func realViolation(w *world.World, seed uint64, i int, pkg, a, b, sa, sb string) *core.Violation {
	c := &Case{World: w}
	raw, _ := json.Marshal(c)
	return &core.Violation{
		Property: "C06", Sig: "real-drivers-disagree", Leg: "real-drivers", Seed: seed, Run: 1<<40 + i,
		Detail: fmt.Sprintf("package %s: %q and %q report differently on the same module and flags (not schedule-replayable: real drivers; the replay file holds the module):\n%s", pkg, a, b, firstDiff(sa, sb)),
		Case:   raw, EventHash: fmt.Sprintf("%016x", core.HashString(sa+sb)),
	}
}
