// Package c06 decides property C06: what is reported for a package depends
// only on its own files, the configuration and the annotations of its direct
// imports - whatever the driver (in-process / separate processes with fact
// files), the transport, the run set, the order, a re-executed unit.
package c06

import (
	"fmt"
	"regexp"
	"sort"
	"strings"

	"verifsim/core"
	"verifsim/driver"
	"verifsim/sched"
	"verifsim/world"
)

type Engine struct{}

func init() { core.Register(Engine{}) }

func (Engine) ID() string { return "C06" }

// ExecSpec: one execution of one world variant.
type ExecSpec struct {
	Label   string       `json:"label"`
	Variant string       `json:"variant"` // which world: base | strip:<i> | saturate:<i> | bodies:<i> | unrelated | sibling
	Ex      driver.Exec  `json:"exec"`
	Sched   sched.Config `json:"sched"`
	Tape    []uint32     `json:"decisions"`
}

type Case struct {
	World *world.World `json:"world"`
	Execs []ExecSpec   `json:"execs"`
	// expectations that come from the generator's declaration model
	Sibling    *world.World      `json:"sibling_world,omitempty"`
	SibPairs   []SibPair         `json:"sibling_pairs,omitempty"`
	PkgoExpect []PkgoExpectation `json:"pkgo_expectations,omitempty"`
}

// SibPair ties a use statement in an importing package to its copy inside the
// declaring package.
type SibPair struct {
	UserPkg  string `json:"user_pkg"`
	UserFile string `json:"user_file"`
	UserLine int    `json:"user_line"`
	DeclPkg  string `json:"decl_pkg"`
	SibFile  string `json:"sib_file"`
	SibLine  int    `json:"sib_line"`
	Stmt     string `json:"stmt"`
	// NameClash: a type of the same NAME from another package is used in the
	// same file of the importer. gogreement de-duplicates TONL01 per file by
	// bare type name (C03's business), so which statement carries the one
	// TONL01 is not comparable between the two worlds; TONL01 is left out.
	NameClash bool `json:"name_clash,omitempty"`
}

// PkgoExpectation: which PKGO codes the property text demands on a line.
type PkgoExpectation struct {
	Pkg   string   `json:"pkg"`
	File  string   `json:"file"`
	Line  int      `json:"line"`
	Codes []string `json:"codes"` // sorted multiset
	Why   string   `json:"why"`
}

type failure struct{ sig, detail string }

func variantWorld(c *Case, v string) (*world.World, error) {
	switch {
	case v == "base" || v == "":
		return c.World, nil
	case v == "sibling":
		if c.Sibling == nil {
			return nil, fmt.Errorf("case has no sibling world")
		}
		return c.Sibling, nil
	case v == "unrelated":
		return world.AddUnrelated(c.World), nil
	}
	var kind string
	var i int
	if _, err := fmt.Sscanf(strings.Replace(v, ":", " ", 1), "%s %d", &kind, &i); err != nil || i < 0 || i >= len(c.World.Pkgs) {
		return nil, fmt.Errorf("bad variant %q", v)
	}
	switch kind {
	case "strip":
		return world.StripAnnotations(c.World, i), nil
	case "saturate":
		return world.SaturateAnnotations(c.World, i), nil
	case "bodies":
		return world.EditBodies(c.World, i), nil
	}
	return nil, fmt.Errorf("bad variant %q", v)
}

// whoMayChange: packages whose outcome is allowed to differ from the base
// world under a variant (everything else must be identical).
func whoMayChange(w *world.World, v string) map[string]bool {
	out := map[string]bool{}
	var kind string
	var i int
	if n, _ := fmt.Sscanf(strings.Replace(v, ":", " ", 1), "%s %d", &kind, &i); n != 2 {
		return out
	}
	edited := w.Pkgs[i].Path
	out[edited] = true // its own files changed
	if kind == "bodies" {
		return out // annotations untouched: no importer may notice
	}
	for _, p := range w.Pkgs { // annotations changed: direct importers may notice
		for _, ip := range p.Imports {
			if ip == edited {
				out[p.Path] = true
			}
		}
	}
	return out
}

var codeRe = regexp.MustCompile(`^error: \[([A-Z]+[0-9]+)\]`)

func codesOnLine(o *driver.Outcome, pkg, file string, line int, keep func(string) bool) []string {
	var out []string
	for _, d := range o.Diags[pkg] {
		if d.Line != line || !strings.HasSuffix(d.File, "/"+file) {
			continue
		}
		if m := codeRe.FindStringSubmatch(d.Msg); m != nil && keep(m[1]) {
			out = append(out, m[1])
		}
	}
	sort.Strings(out)
	return out
}

var sibTypeRe = regexp.MustCompile(`\[type ([A-Za-z_][A-Za-z0-9_]*)\]`)

// tonl01ElsewhereExplains: the two code lists differ by exactly one TONL01, and the
// package on the lacking side reports TONL01 for the same type name somewhere else.
func tonl01ElsewhereExplains(a, b []string, baseOut, sibOut *driver.Outcome, sp SibPair) bool {
	drop := func(l []string) (rest []string, n int) {
		for _, c := range l {
			if c == "TONL01" {
				n++
			} else {
				rest = append(rest, c)
			}
		}
		return
	}
	ra, na := drop(a)
	rb, nb := drop(b)
	if strings.Join(ra, ",") != strings.Join(rb, ",") || na == nb {
		return false
	}
	m := sibTypeRe.FindStringSubmatch(sp.Stmt)
	if m == nil {
		return false
	}
	word := regexp.MustCompile(`\b` + regexp.QuoteMeta(m[1]) + `\b`)
	out, pkg := sibOut, sp.DeclPkg
	if na < nb {
		out, pkg = baseOut, sp.UserPkg
	}
	for _, d := range out.Diags[pkg] {
		if cm := codeRe.FindStringSubmatch(d.Msg); cm != nil && cm[1] == "TONL01" && word.MatchString(d.Msg) {
			return true
		}
	}
	return false
}

func clip(s string, n int) string {
	if len(s) > n {
		return s[:n] + "…"
	}
	return s
}

func firstDiff(a, b string) string {
	la, lb := strings.Split(a, "\n"), strings.Split(b, "\n")
	in := func(x string, l []string) bool {
		for _, y := range l {
			if x == y {
				return true
			}
		}
		return false
	}
	var sb strings.Builder
	n := 0
	for _, x := range la {
		if !in(x, lb) && n < 3 {
			fmt.Fprintf(&sb, "    only in the first : %s\n", clip(x, 330))
			n++
		}
	}
	n = 0
	for _, x := range lb {
		if !in(x, la) && n < 3 {
			fmt.Fprintf(&sb, "    only in the second: %s\n", clip(x, 330))
			n++
		}
	}
	if sb.Len() == 0 {
		sb.WriteString("    (same lines, different order or multiplicity)\n")
	}
	return sb.String()
}

// Execute runs all executions of the case and applies the oracles.
func Execute(c *Case, chooser func(i int) sched.Chooser, record func(i int, start bool), agg *core.Agg) (*failure, uint64, error) {
	log := core.NewHasher()
	type ref struct{ label, str string }
	refs := map[string]ref{} // package -> reference outcome in the base world
	loaded := map[string]*driver.Loaded{}
	var baseOut, sibOut *driver.Outcome
	for i := range c.Execs {
		spec := &c.Execs[i]
		w, err := variantWorld(c, spec.Variant)
		if err != nil {
			return nil, 0, core.Infra("%v", err)
		}
		ex := spec.Ex
		ex.Sched = spec.Sched
		var out *driver.Outcome
		var st *driver.ExecStats
		record(i, true)
		if ex.Driver == "vet" {
			out, st, err = driver.RunVet(w, &ex, chooser(i))
		} else {
			sortedRoots := append([]string(nil), ex.Roots...)
			sort.Strings(sortedRoots)
			lk := fmt.Sprintf("%s/%d/%s", spec.Variant, ex.ParseSeed, strings.Join(sortedRoots, ","))
			l := loaded[lk]
			if l == nil {
				l, err = driver.LoadFor(w, ex.ParseSeed, ex.Roots) // only the roots and what they depend on is loaded
				if err != nil {
					return nil, 0, core.Infra("variant %s: %v", spec.Variant, err)
				}
				loaded[lk] = l
			}
			if ex.ParseSeed != 0 {
				agg.Inc("fault.permuted_parse_order")
			}
			out, st, err = driver.RunChecker(l, &ex, chooser(i))
		}
		record(i, false)
		if err != nil {
			return nil, 0, core.Infra("execution %s: %v", spec.Label, err)
		}
		out = out.MergeVariants() // across drivers only the per-import-path view is comparable
		agg.Inc("executions")
		agg.Inc("driver." + ex.Driver)
		agg.Inc("transport." + ex.Transport)
		agg.Inc("variant." + strings.SplitN(spec.Variant, ":", 2)[0])
		agg.Add("sched.steps", int64(st.Sched.Steps))
		agg.Add("sched.switches", int64(st.Sched.Switches))
		agg.Add("units", int64(st.Units))
		agg.Add("facts.shared_by_pointer", int64(st.FactsShared))
		agg.Add("facts.gob_roundtrips", int64(st.FactsEncoded))
		agg.Add("facts.imports", int64(st.FactImports))
		agg.Add("facts.import_hits", int64(st.FactImportHits))
		if st.LatentFactMismatch > 0 {
			agg.Add("probe.latent_fact_mismatch_after_gob", int64(st.LatentFactMismatch))
		}
		if st.AllPackageFactsCalls > 0 {
			agg.Add("probe.AllPackageFacts_calls", int64(st.AllPackageFactsCalls))
		}
		if ex.Rerun >= 0 {
			agg.Inc("fault.unit_executed_twice")
		}
		if len(ex.Roots) < len(w.Pkgs) {
			agg.Inc("fault.partial_run_set")
		}
		if st.Sched.Preemptions > 0 || ex.Driver == "vet" || ex.Transport != "share" || len(ex.Roots) < len(w.Pkgs) || spec.Variant != "base" {
			h := core.NewHasher()
			h.Int(int(c.World.Hash()))
			h.Str(spec.Variant + ex.Driver + ex.Transport + strings.Join(ex.Roots, ","))
			h.Int(int(st.Sched.TraceHash))
			agg.Distinct("nontrivial", h.Sum())
		}
		for p, es := range out.Errors {
			for _, e := range es {
				if strings.Contains(e, "panic") {
					agg.Note("an analyzer action panicked in a simulated run (recorded in the outcome): " + clip(p+": "+e, 200))
				}
			}
		}
		if spec.Variant == "sibling" {
			sibOut = out
		}
		if spec.Variant == "base" && baseOut == nil && len(ex.Roots) == len(c.World.Pkgs) {
			baseOut = out
		}
		may := whoMayChange(c.World, spec.Variant)
		roots := w.OutcomePathsMerged(ex.Roots)
		sort.Strings(roots)
		for _, p := range roots {
			if c.World.Index(world.BasePath(p)) < 0 {
				continue // the extra unrelated package
			}
			s := out.PkgString(p)
			log.Str(p)
			log.Str(s)
			if spec.Variant == "sibling" || may[world.BasePath(p)] {
				continue
			}
			rf, ok := refs[p]
			if !ok {
				refs[p] = ref{spec.Label, s}
				continue
			}
			agg.Inc("outcome_comparisons")
			if strings.HasSuffix(p, "_test") && s != "" {
				agg.Inc("probe.external_test_package_outcome_compared_nonempty")
			}
			if rf.str != s {
				sig := "outcome-depends-on-driver-or-run-set"
				what := "driver / transport / run set / order"
				if spec.Variant != "base" {
					sig = "outcome-depends-on-more-than-direct-imports"
					what = "world variant " + spec.Variant + " (which must not matter to this package)"
				}
				return &failure{sig, fmt.Sprintf("package %s: outcome in execution %q differs from execution %q; the two differ only in %s:\n%s", p, spec.Label, rf.label, what, firstDiff(rf.str, s))}, log.Sum(), nil
			}
		}
	}
	// importers see what the declaring package sees
	if sibOut != nil && baseOut != nil {
		keep := func(code string) bool {
			return strings.HasPrefix(code, "IMM") || strings.HasPrefix(code, "CTOR") || strings.HasPrefix(code, "TONL")
		}
		for _, sp := range c.SibPairs {
			keep := keep
			if sp.NameClash {
				keep = func(code string) bool {
					return code != "TONL01" && (strings.HasPrefix(code, "IMM") || strings.HasPrefix(code, "CTOR") || strings.HasPrefix(code, "TONL"))
				}
				agg.Inc("probe.sibling_pairs_with_type_name_clash")
			}
			a := codesOnLine(baseOut, sp.UserPkg, sp.UserFile, sp.UserLine, keep)
			b := codesOnLine(sibOut, sp.DeclPkg, sp.SibFile, sp.SibLine, keep)
			agg.Inc("sibling_statement_comparisons")
			if len(a) > 0 {
				agg.Inc("probe.cross_package_statement_reported")
			}
			if strings.Join(a, ",") != strings.Join(b, ",") && tonl01ElsewhereExplains(a, b, baseOut, sibOut, sp) {
				// the once-per-file-and-type rule of TONL01 is C03's: if the side that lacks
				// the TONL01 reports that very type at another place of the same package, the
				// annotation did arrive there and only the choice of the reporting place differs
				agg.Inc("probe.sibling_tonl01_reported_elsewhere_in_package")
				continue
			}
			if strings.Join(a, ",") != strings.Join(b, ",") {
				return &failure{"importer-sees-annotation-differently",
					fmt.Sprintf("statement %q: in importing package %s (%s:%d) it is reported as %v, the same statement inside the declaring package %s (%s:%d) as %v", sp.Stmt, sp.UserPkg, sp.UserFile, sp.UserLine, a, sp.DeclPkg, sp.SibFile, sp.SibLine, b)}, log.Sum(), nil
			}
		}
	}
	if baseOut != nil {
		keep := func(code string) bool { return strings.HasPrefix(code, "PKGO") }
		for _, pe := range c.PkgoExpect {
			got := codesOnLine(baseOut, pe.Pkg, pe.File, pe.Line, keep)
			agg.Inc("pkgo_expectation_checks")
			if len(pe.Codes) > 0 {
				agg.Inc("probe.pkgo_expected_nonempty")
			}
			if strings.Join(got, ",") != strings.Join(pe.Codes, ",") {
				return &failure{"allow-list-not-effective-in-importer",
					fmt.Sprintf("package %s %s:%d: @packageonly codes reported %v, the allow-lists in the declaring package demand %v (%s)", pe.Pkg, pe.File, pe.Line, got, pe.Codes, pe.Why)}, log.Sum(), nil
			}
		}
	}
	return nil, log.Sum(), nil
}
