package c06

import (
	"encoding/json"
	"time"

	"verifsim/core"
)

func Spec(tier string, seed uint64, realBin string) *core.CheckSpec {
	worlds := 1500
	budget := 5 * time.Minute
	if tier == "thorough" {
		worlds = 12000
		budget = 40 * time.Minute
	}
	e := Engine{}
	spec := &core.CheckSpec{
		Engine: e, Tier: tier, Seed: seed, Budget: budget, MaxExec: 500,
		Legs:     []*core.Leg{{Name: "driver-sim", Runs: worlds, Opt: core.RunOpt{Tier: tier, Leg: "driver-sim"}}},
		Coverage: func(a *core.Agg) map[string]any { return coverage(a, realBin != "") },
		Assumptions: []string{
			"loss, truncation or corruption of fact files is NOT injected: the property presupposes that the dependency's facts are delivered",
			"a package with an in-package _test.go file is analysed as two variants (plain and test) by every driver; outcomes are merged per import path with identical entries de-duplicated",
			"the stub drivers are modelled on x/tools v0.38.0; the validation legs compare them with the real checker.Analyze, the real gogreement binary and real go vet -vettool",
			"the sibling-world and allow-list expectations are applied only to worlds without @ignore comments and exclude-checks, and only to statements in non-test, non-excluded files inside function bodies",
			"@implements names only exported interfaces of imported packages",
		},
	}
	if realBin != "" {
		spec.Post = func(a *core.Agg) ([]*core.Violation, error) { return realLegs(tier, seed, realBin, a) }
	}
	return spec
}

func coverage(a *core.Agg, real bool) map[string]any {
	samples := []any{}
	for _, s := range a.Samples["case"] {
		var v any
		json.Unmarshal(s, &v)
		samples = append(samples, v)
	}
	if len(samples) > 2 {
		samples = samples[:2]
	}
	return map[string]any{
		"evaluations":         a.Counters["executions"],
		"distinct_nontrivial": a.DistinctCount("nontrivial"),
		"rule": "one evaluation = one simulated execution of one world (or metamorphic variant of it) under one (driver, transport, run set, root order, schedule, re-executed unit); " +
			"distinct = distinct (world, variant, driver, transport, run set, schedule-trace) tuple; non-trivial = anything but the in-process, pointer-sharing, all-roots, unpreempted reference execution",
		"samples":                       samples,
		"worlds":                        a.Counters["worlds"],
		"distinct_worlds":               a.DistinctCount("worlds"),
		"packages":                      a.Counters["world.packages"],
		"outcome_comparisons":           a.Counters["outcome_comparisons"],
		"drivers":                       a.WithPrefix("driver."),
		"transports":                    a.WithPrefix("transport."),
		"world_variants":                a.WithPrefix("variant."),
		"vet_units_executed":            a.Counters["units"],
		"facts":                         a.WithPrefix("facts."),
		"faults_fired":                  a.WithPrefix("fault."),
		"worlds_with_sibling_oracle":    a.Counters["worlds_with_sibling_oracle"],
		"sibling_statement_comparisons": a.Counters["sibling_statement_comparisons"],
		"pkgo_expectation_checks":       a.Counters["pkgo_expectation_checks"],
		"probes":                        a.WithPrefix("probe."),
		"scheduler":                     a.WithPrefix("sched."),
		"real_driver_legs":              a.WithPrefix("real."),
		"simulated_time":                "none: no timer in gogreement; progress is counted in yield points and vet units",
		"real_code":                     []string{"all eight gogreement analyzers (instrumented copy of the working tree)", "go/types, gcexportdata, encoding/gob, x/tools internal/facts (verbatim copy)", "validation legs: x/tools checker.Analyze, cmd/gogreement binary (uninstrumented), go vet -vettool"},
		"stubbed":                       []string{"checker-sim and vet-sim (action graph, unit order, fact and export-data plumbing)", "the disk (in-memory) in simulated legs"},
		"budget_stops":                  a.Counters["budget_stops"],
		"exhaustive":                    false,
	}
}
