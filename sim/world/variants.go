package world

import (
	"fmt"
	"regexp"
	"strings"
)

var annLine = regexp.MustCompile(`^\s*//\s*@(immutable|constructor|testonly|packageonly|mutable|implements)\b`)

// StripAnnotations returns a copy of w in which package i carries no
// annotation at all (annotation comment lines become ordinary comments, so
// line numbers stay put).
func StripAnnotations(w *World, i int) *World {
	c := w.Clone()
	for fi, f := range c.Pkgs[i].Files {
		lines := strings.Split(f.Src, "\n")
		for k, l := range lines {
			if annLine.MatchString(l) {
				lines[k] = strings.Replace(l, "@", "(at)", 1)
			}
		}
		c.Pkgs[i].Files[fi].Src = strings.Join(lines, "\n")
	}
	return c
}

var typeDecl = regexp.MustCompile(`^type (T\w+|Shared) struct \{$`)
var funcDecl = regexp.MustCompile(`^func (\([^)]*\) )?(New|Make|PM|VM|F)\w*\(`)

// SaturateAnnotations returns a copy of w in which every generated type,
// constructor, method and function of package i carries @immutable /
// @testonly / @packageonly / @constructor annotations (in addition to what it
// had). Only the files of package i change.
func SaturateAnnotations(w *World, i int) *World {
	c := w.Clone()
	for fi, f := range c.Pkgs[i].Files {
		if f.Name != "decl.go" && f.Name != "methods.go" {
			continue
		}
		var out []string
		for _, l := range strings.Split(f.Src, "\n") {
			if m := typeDecl.FindStringSubmatch(l); m != nil {
				out = append(out, "// @immutable", "// @testonly", "// @packageonly only-here", "// @constructor Nobody"+m[1])
			} else if funcDecl.MatchString(l) {
				out = append(out, "// @testonly", "// @packageonly only-here")
			}
			out = append(out, l)
		}
		c.Pkgs[i].Files[fi].Src = strings.Join(out, "\n")
	}
	return c
}

// EditBodies returns a copy of w in which package i's declaration file gets
// ordinary comments, blank lines and an extra unannotated function - nothing
// an annotation reader looks at - so that every position in it moves.
func EditBodies(w *World, i int) *World {
	c := w.Clone()
	for fi, f := range c.Pkgs[i].Files {
		if f.Name != "decl.go" {
			continue
		}
		lines := strings.Split(f.Src, "\n")
		var out []string
		seenPkg := false
		for _, l := range lines {
			out = append(out, l)
			if !seenPkg && strings.HasPrefix(l, "package ") {
				seenPkg = true
				out = append(out, "", "// an ordinary comment, inserted after the fact", "", "/* and a block", "   comment */", "")
			}
			if strings.HasPrefix(l, "\tt.A = 1") {
				out = append(out, "\t_ = t // edited body")
			}
		}
		out = append(out, fmt.Sprintf("func editedExtra%d() int { return %d }", i, i), "")
		c.Pkgs[i].Files[fi].Src = strings.Join(out, "\n")
	}
	return c
}

// AddUnrelated returns a copy of w with one more package that nobody imports
// and that imports nobody; it declares annotated items with the same names
// as package 0 to invite confusion.
func AddUnrelated(w *World) *World {
	c := w.Clone()
	src := strings.Join([]string{
		"package zunrel", "",
		"// Ta0 shares its name with a type elsewhere.",
		"// @immutable", "// @testonly", "// @packageonly", "// @constructor NewTa0",
		"type Ta0 struct {", "\tA int", "}", "",
		"func NewTa0() *Ta0 { return &Ta0{} }", "",
		"// @testonly", "func Fa() int { return 1 }", "",
		"func touch() {", "\tx := NewTa0()", "\tx.A = 2", "\t_ = Ta0{}", "}", "",
	}, "\n")
	c.Pkgs = append(c.Pkgs, Pkg{Path: w.Module + "/zunrel", Name: "zunrel", Files: []File{{Name: "z.go", Src: src}}})
	return c
}

// Sibling builds the "same statements inside the declaring package" world:
// for every use site in a non-test, non-excluded file of package u that uses
// an item of package d != u, the statement is written (qualifier dropped) into
// a new file of package d - one new file per (u, file of u), statements in
// their original order, so that the once-per-file codes pick the same
// statement. It returns the world and, per use-site ID, (file, line) of the
// moved statement.
func Sibling(w *World, m *Meta) (*World, map[int]SibLoc) {
	c := w.Clone()
	locs := map[int]SibLoc{}
	type fk struct {
		d, u int
		file string
	}
	groups := map[fk][]UseSite{}
	var order []fk
	for _, u := range m.Uses {
		if strings.HasPrefix(u.Shape, "indirect") {
			// a type of package X reached through another package: comparable with X's own
			// view only if the user imports X directly (by name or blank)
			user := m.Decls[u.Pkg]
			direct := user.BlankImport == u.Dep
			for _, j := range user.Imports {
				if j == u.Dep {
					direct = true
				}
			}
			if !direct {
				continue
			}
		}
		if u.Dep == u.Pkg || u.Text == "" || strings.HasPrefix(u.Shape, "ctorfn-") || u.File == "gen_skip.go" || strings.HasSuffix(u.File, "_test.go") {
			continue
		}
		k := fk{u.Dep, u.Pkg, u.File}
		if _, ok := groups[k]; !ok {
			order = append(order, k)
		}
		groups[k] = append(groups[k], u)
	}
	for _, k := range order {
		dep := m.Decls[k.d]
		s := &src{}
		s.ln("package %s", dep.Name)
		s.ln("")
		for n, u := range groups[k] {
			s.ln("func sib_%s_%s_%d() {", m.Decls[k.u].Qual, strings.TrimSuffix(k.file, ".go"), n)
			if strings.HasPrefix(u.Shape, "indirect") {
				stmt := "Get" + u.Type + "().A = 11"
				if u.Shape == "indirect-call" {
					stmt = "_ = Get" + u.Type + "().PM()"
				}
				line := s.ln("\t%s", stmt)
				locs[u.ID] = SibLoc{File: fmt.Sprintf("zz_sib_%s_%s", m.Decls[k.u].Qual, k.file), Line: line}
				s.ln("}")
				s.ln("")
				continue
			}
			if strings.HasPrefix(u.Shape, "grouped:") {
				g := strings.TrimPrefix(u.Shape, "grouped:")
				s.ln("\tg%s := Get%s()", g, u.Type)
				line := s.ln("\t%s", strings.Replace(u.Text, "Q.", "", 1))
				locs[u.ID] = SibLoc{File: fmt.Sprintf("zz_sib_%s_%s", m.Decls[k.u].Qual, k.file), Line: line}
				s.ln("\t_ = g%s", g)
				s.ln("}")
				s.ln("")
				continue
			}
			if strings.HasPrefix(u.Shape, "hidden:") {
				s.ln("\tu := GetU%s()", dep.Qual)
				line := s.ln("\t%s", u.Text)
				locs[u.ID] = SibLoc{File: fmt.Sprintf("zz_sib_%s_%s", m.Decls[k.u].Qual, k.file), Line: line}
				s.ln("\t_ = u")
				s.ln("}")
				s.ln("")
				continue
			}
			s.ln("\tx := Get%s()", u.Type)
			s.ln("\t_ = x")
			for _, l := range shapeByName(u.Shape).lines {
				line := s.ln("\t%s", expand(l, "", u.Type, dep.FuncName()))
				if l == u.Text {
					locs[u.ID] = SibLoc{File: fmt.Sprintf("zz_sib_%s_%s", m.Decls[k.u].Qual, k.file), Line: line}
				}
			}
			s.ln("}")
			s.ln("")
		}
		c.Pkgs[k.d].Files = append(c.Pkgs[k.d].Files, File{Name: fmt.Sprintf("zz_sib_%s_%s", m.Decls[k.u].Qual, k.file), Src: s.b.String()})
	}
	return c, locs
}

type SibLoc struct {
	File string
	Line int
}

func shapeByName(n string) shape {
	for _, s := range shapes {
		if s.name == n {
			return s
		}
	}
	return shape{}
}
