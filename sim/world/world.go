// Package world generates seeded multi-package Go programs annotated for
// gogreement, as plain source text. A World is self-contained (it is what a
// replay file stores); the generator's own bookkeeping (which line holds which
// use statement) travels separately in Meta.
package world

import (
	"fmt"
	"sort"
	"strings"
)

// Config is the gogreement configuration of a run, as flag values.
type Config struct {
	ScanTests     bool   `json:"scan_tests"`
	ExcludePaths  string `json:"exclude_paths"`
	ExcludeChecks string `json:"exclude_checks"`
}

type File struct {
	Name string `json:"name"` // relative to the package directory
	Src  string `json:"src"`
}

type Pkg struct {
	Path    string   `json:"path"`
	Name    string   `json:"name"`
	Imports []string `json:"imports"` // world packages imported by non-test files
	Files   []File   `json:"files"`
	// ModPath/ModVersion: the module the package belongs to, if not the main
	// module (a dependency module: other path, a version) - simulated drivers only.
	ModPath    string `json:"mod_path,omitempty"`
	ModVersion string `json:"mod_version,omitempty"`
}

type World struct {
	Module string `json:"module"`
	Pkgs   []Pkg  `json:"pkgs"` // topological: a package imports only earlier ones
	Cfg    Config `json:"config"`
	// Faults: "<package path>|<file>" -> eio | empty | short:<n>: what
	// pass.ReadFile gives for that file at report time, in every execution.
	Faults map[string]string `json:"read_faults,omitempty"`
}

func (w *World) Index(path string) int {
	for i := range w.Pkgs {
		if w.Pkgs[i].Path == path {
			return i
		}
	}
	return -1
}

// Dir returns the directory of a package relative to the module root.
func (w *World) Dir(p *Pkg) string {
	return strings.TrimPrefix(strings.TrimPrefix(p.Path, w.Module), "/")
}

// HasTestFiles reports whether a package has in-package _test.go files (it
// then appears to drivers as two nodes: the plain and the test variant).
func (p *Pkg) HasTestFiles() bool {
	for _, f := range p.Files {
		if strings.HasSuffix(f.Name, "_test.go") && f.Name != ExtTestFile {
			return true
		}
	}
	return false
}

// ExtTestFile is the one file of a package that belongs to its external test
// package (package <name>_test).
const ExtTestFile = "ext_test.go"

// HasExtTest reports whether the package has an external test package.
func (p *Pkg) HasExtTest() bool {
	for _, f := range p.Files {
		if f.Name == ExtTestFile {
			return true
		}
	}
	return false
}

// OutcomePaths lists the package IDs under which the drivers report the
// given roots: the package itself, its test variant "p [p.test]" if it has
// in-package test files, and its external test package "p_test [p.test]".
// Outcomes are kept per ID (not merged per import path): which variant reports
// a finding is part of what must not depend on the driver or the schedule.
func (w *World) OutcomePaths(roots []string) []string {
	var out []string
	for _, r := range roots {
		out = append(out, r)
		if i := w.Index(r); i >= 0 {
			if w.Pkgs[i].HasTestFiles() {
				out = append(out, fmt.Sprintf("%s [%s.test]", r, r))
			}
			if w.Pkgs[i].HasExtTest() {
				out = append(out, fmt.Sprintf("%s_test [%s.test]", r, r))
			}
		}
	}
	return out
}

// OutcomePathsMerged is OutcomePaths for outcomes whose variants have been
// merged per import path (see driver.Outcome.MergeVariants): the package and,
// if any, its external test package.
func (w *World) OutcomePathsMerged(roots []string) []string {
	var out []string
	for _, r := range roots {
		out = append(out, r)
		if i := w.Index(r); i >= 0 && w.Pkgs[i].HasExtTest() {
			out = append(out, r+"_test")
		}
	}
	return out
}

// BasePath maps a package ID back to the import path of the world package it belongs to.
func BasePath(id string) string {
	if i := strings.Index(id, " ["); i >= 0 {
		id = id[:i]
	}
	return strings.TrimSuffix(id, "_test")
}

// TransitiveDeps returns the indices of all packages reachable from i (excluding i), sorted.
func (w *World) TransitiveDeps(i int) []int {
	seen := map[int]bool{}
	var visit func(int)
	visit = func(k int) {
		for _, ip := range w.Pkgs[k].Imports {
			j := w.Index(ip)
			if j >= 0 && !seen[j] {
				seen[j] = true
				visit(j)
			}
		}
	}
	visit(i)
	var out []int
	for k := range seen {
		out = append(out, k)
	}
	sort.Ints(out)
	return out
}

// Clone deep-copies a world.
func (w *World) Clone() *World {
	c := &World{Module: w.Module, Cfg: w.Cfg}
	if w.Faults != nil {
		c.Faults = map[string]string{}
		for k, v := range w.Faults {
			c.Faults[k] = v
		}
	}
	for _, p := range w.Pkgs {
		q := Pkg{Path: p.Path, Name: p.Name, Imports: append([]string(nil), p.Imports...), ModPath: p.ModPath, ModVersion: p.ModVersion}
		q.Files = append([]File(nil), p.Files...)
		c.Pkgs = append(c.Pkgs, q)
	}
	return c
}

// Hash is a content hash of sources and configuration.
func (w *World) Hash() uint64 {
	h := uint64(14695981039346656037)
	add := func(s string) {
		for i := 0; i < len(s); i++ {
			h ^= uint64(s[i])
			h *= 1099511628211
		}
		h ^= 0xff
		h *= 1099511628211
	}
	add(fmt.Sprintf("%v|%s|%s|%v", w.Cfg.ScanTests, w.Cfg.ExcludePaths, w.Cfg.ExcludeChecks, len(w.Faults)))
	for _, p := range w.Pkgs {
		add(p.Path)
		add(p.Name)
		for _, f := range p.Files {
			add(f.Name)
			add(f.Src)
		}
	}
	return h
}

// UseSite records where the generator put one use statement.
type UseSite struct {
	ID    int    `json:"id"`
	Pkg   int    `json:"pkg"`  // using package
	File  string `json:"file"` // file name within the package
	Line  int    `json:"line"`
	Dep   int    `json:"dep"` // package whose item is used (== Pkg for same-package uses)
	Shape string `json:"shape"`
	Text  string `json:"text"` // statement template with Q. as qualifier
	Type  string `json:"type"`
}

// Meta is generator bookkeeping that the oracles use.
type Meta struct {
	Clean bool // no @ignore comments, no exclude-checks
	Uses  []UseSite
	// per package: the declaration model (for the sibling world and the PKGO expectation)
	Decls []*PkgDecl
}
