package world

import (
	"fmt"
	"strings"
)

// Drawer is the choice tape.
type Drawer interface {
	Draw(n int) int
}

type drw struct{ Drawer }

func (d drw) chance(num, den int) bool { return d.Draw(den) >= den-num }
func (d drw) rng(lo, hi int) int {
	if hi <= lo {
		d.Draw(1)
		return lo
	}
	return lo + d.Draw(hi-lo+1)
}

// ---------------------------------------------------------------- declaration model

type TypeDecl struct {
	Name      string
	Immutable bool
	ImmLine   string   // the annotation line as written
	CtorLines []string // "// @constructor ..." lines as written
	CtorNames []string // the names on those lines
	TestOnly  bool
	PkgOnly   [][]string // one entry per @packageonly line: its list
	Impl      []string   // "// @implements ..." lines as written
	MutB      bool       // @mutable on field B
	MutCD     bool       // @mutable on the grouped fields C, D
	// methods PM (pointer receiver) and VM (value receiver)
	PMTest, VMTest       bool
	PMPkgOnly, VMPkgOnly [][]string
	// constructor functions New<T> (returns *T), Make<T> (returns T)
	NewTest    bool
	NewPkgOnly [][]string
}

type Reexport struct {
	Dep  int
	Type string
	Fn   string // GetX<dep qualifier><type>
}

type PkgDecl struct {
	Index       int
	Path, Name  string // Name is the package clause; several packages of a world may share it
	Qual        string // unique in the world: qualifier importers use, and part of generated identifiers
	Dir         string
	Types       []*TypeDecl
	FuncTest    bool // F<name>() is @testonly
	FuncPkgOnly [][]string
	Hidden      bool       // the package has an unexported @immutable type u<qual>, handed out by GetU<Qual>()
	HiddenMutB  bool       // ... whose field B is @mutable
	UnsafeFirst bool       // its files import "unsafe" before the world imports
	Bulk        bool       // one function of this package holds several hundred violating statements
	Sparse      bool       // few annotations (see genDecls)
	SplitDecl   bool       // methods and functions live in methods.go, types in decl.go
	Grouped     bool       // a grouped type declaration: group doc shared, one spec with its own doc
	BlankImport int        // index of an earlier package imported only for its side effects (import _), or -1
	Reexports   []Reexport // GetX<Type>() returning a type of an imported package
	Imports     []int
	AliasImport bool // importers write an explicit alias
	TwinOf      int  // index of the package this one is a structural clone of, or -1
	Pad         int  // bytes of filler comment at the top of decl.go (moves every position)
	UsesFirst   bool // use.go is listed (and parsed) before decl.go
}

func (p *PkgDecl) FuncName() string   { return "F" + p.Qual }
func (p *PkgDecl) AnchorName() string { return "Anchor" + strings.ToUpper(p.Qual[:1]) + p.Qual[1:] }

// AllowedUnion returns the union of all @packageonly lists (without the
// implicit declaring package).
func AllowedUnion(lines [][]string) []string {
	var out []string
	for _, l := range lines {
		out = append(out, l...)
	}
	return out
}

// ---------------------------------------------------------------- options

type GenOpt struct {
	MinPkgs, MaxPkgs int
	Flat             bool // allow worlds of unrelated packages (C11)
	NeedDepth2       bool // force a chain a <- b <- c (C06)
	CleanChance      int  // out of 4: worlds without @ignore comments and exclude-checks (expectation oracles apply)
	Bulk             bool // rarely, a package with several hundred violations of its own (volume-dependent behaviour)
	MultiModule      bool // some packages belong to a second, versioned module (simulated drivers only)
	StdImports       bool // some files import "unsafe" ahead of their world imports
	DirExclude       bool // exclude-paths may name a directory of the world
	ForceDirExclude  bool // ... and does (real-driver legs: every third world)
	ReadFaults       bool // some files are unreadable / short at report time, identically in every execution
	LineDirectives   bool // //line directives in use files (non-clean worlds only)
	LongLines        bool // use statements get long leading block comments / trailing comments (C19 pipeline leg)
}

var dirShapes = []string{"%s", "x-y/%s", "v.1/%s", "deep/er/%s", "pkg%s", "in_ternal/%s.d"}

var junkPkgs = []string{"nosuch", "github.com/x/y-z.v2", "a/b/c", "util", "x.y/z-w/q_r", "main"}

// Generate draws a world. Draw 0 is always the simplest alternative.
var ctorFnTaken map[int]map[string]bool
var longLines, lineDirectives bool
var depModuleUpTo int // packages with a smaller index belong to the dependency module
var bulkWorld bool    // this world has packages with several hundred violations each

// filler is comment text of n bytes with a few tabs and multi-byte runes.
func filler(d drw, n int) string {
	var b strings.Builder
	for b.Len() < n {
		switch d.Draw(12) {
		case 0:
			b.WriteByte('\t')
		case 1:
			b.WriteString("é")
		case 2:
			b.WriteString("世")
		default:
			b.WriteByte("abcdefghijklmnopqrstuvwxyz "[d.Draw(27)])
		}
	}
	return b.String()
}

func Generate(t Drawer, opt GenOpt) (*World, *Meta) {
	d := drw{t}
	ctorFnTaken = map[int]map[string]bool{}
	longLines = opt.LongLines
	lineDirectives = opt.LineDirectives
	depModuleUpTo = 0
	bulkWorld = opt.Bulk && d.chance(1, 30)
	w := &World{Module: "ex.test/w"}
	m := &Meta{}
	n := d.rng(opt.MinPkgs, opt.MaxPkgs)
	flat := opt.Flat && d.chance(1, 6)

	// configuration of the tool
	if d.chance(1, 4) {
		w.Cfg.ScanTests = true
	}
	switch d.Draw(5) {
	case 0, 1, 2:
		w.Cfg.ExcludePaths = "testdata"
	case 3:
		w.Cfg.ExcludePaths = "testdata,gen_"
	case 4:
		w.Cfg.ExcludePaths = ""
	}
	m.Clean = d.Draw(4) < opt.CleanChance
	if !m.Clean && d.chance(1, 6) {
		w.Cfg.ExcludeChecks = []string{"IMM02", "CTOR", "tonl01,PKGO03", "IMPL,IMM04", "ZZZ"}[d.Draw(5)]
	}

	letters := "abcdefgh"
	for i := 0; i < n; i++ {
		qual := string(letters[i])
		name := qual
		shape := dirShapes[0]
		if d.chance(1, 3) {
			shape = dirShapes[d.Draw(len(dirShapes))]
		}
		dir := fmt.Sprintf(shape, qual)
		if i > 0 && d.chance(1, 5) {
			// same package name as an earlier package, different path: keys that
			// should be import paths but are names collide here
			name = m.Decls[d.Draw(i)].Name
			dir = fmt.Sprintf("twin%d/%s", i, name)
		}
		pd := &PkgDecl{Index: i, Name: name, Qual: qual, Dir: dir, Path: w.Module + "/" + dir, TwinOf: -1}
		if name != qual && d.chance(1, 2) {
			for k := 0; k < i; k++ {
				if m.Decls[k].Name == name && m.Decls[k].TwinOf < 0 {
					pd.TwinOf = k // "templated" sibling package: same layout, same annotations, other path
				}
			}
		} // otherwise: merely the same package name, its own imports and declarations
		if strings.HasPrefix(shape, "pkg") || strings.HasSuffix(shape, ".d") {
			pd.AliasImport = d.chance(1, 2)
		}
		if d.chance(1, 4) {
			pd.Pad = []int{3000, 30000}[d.Draw(2)]
		}
		pd.UsesFirst = d.chance(1, 4)
		pd.UnsafeFirst = opt.StdImports && d.chance(1, 5)
		pd.SplitDecl = d.chance(1, 4)
		pd.Grouped = d.chance(1, 4)
		pd.BlankImport = -1
		if pd.TwinOf >= 0 {
			src := m.Decls[pd.TwinOf]
			pd.Pad, pd.UsesFirst, pd.AliasImport = src.Pad, src.UsesFirst, true
			pd.Imports = append([]int(nil), src.Imports...)
			m.Decls = append(m.Decls, pd)
			continue
		}
		// imports: a DAG over earlier packages
		if !flat && i > 0 {
			if opt.NeedDepth2 && i <= 2 {
				pd.Imports = append(pd.Imports, i-1)
			}
			for j := 0; j < i; j++ {
				if contains(pd.Imports, j) {
					continue
				}
				if d.chance(2, 5) {
					pd.Imports = append(pd.Imports, j)
				}
			}
			if len(pd.Imports) == 0 && d.chance(2, 3) {
				pd.Imports = append(pd.Imports, d.Draw(i))
			}
			if d.chance(1, 6) {
				if k := d.Draw(i); !contains(pd.Imports, k) {
					pd.BlankImport = k
				}
			}
		}
		m.Decls = append(m.Decls, pd)
	}
	if opt.MultiModule && n > 2 && d.chance(1, 6) {
		depModuleUpTo = d.rng(1, n-1)
	}
	if opt.DirExclude && n > 2 && (d.chance(1, 5) || opt.ForceDirExclude) {
		// a non-default exclude-paths pattern that names a directory of the world
		k := d.Draw(n)
		frag := m.Decls[k].Dir
		if i := strings.LastIndex(frag, "/"); i > 0 {
			frag = frag[:i]
		} else if len(frag) < 4 {
			frag = ""
		}
		if frag != "" {
			if w.Cfg.ExcludePaths != "" {
				w.Cfg.ExcludePaths += ","
			}
			w.Cfg.ExcludePaths += frag
			m.Clean = false // a whole package is inert: the expectation oracles do not model that
		}
	}
	for _, pd := range m.Decls {
		genDecls(d, w, m, pd)
	}
	for _, pd := range m.Decls {
		renderPkg(d, w, m, pd)
	}
	if opt.ReadFaults && d.chance(1, 3) {
		// what the disk serves at report time differs from what was parsed - the
		// same way in every execution of this world
		w.Faults = map[string]string{}
		for i := range w.Pkgs {
			for _, f := range w.Pkgs[i].Files {
				if !d.chance(1, 5) {
					continue
				}
				key := w.Pkgs[i].Path + "|" + f.Name
				switch d.Draw(3) {
				case 0:
					w.Faults[key] = "eio"
				case 1:
					w.Faults[key] = "empty"
				default:
					w.Faults[key] = fmt.Sprintf("short:%d", d.Draw(len(f.Src)+1))
				}
			}
		}
	}
	return w, m
}

func contains(a []int, v int) bool {
	for _, x := range a {
		if x == v {
			return true
		}
	}
	return false
}

func genPkgOnly(d drw, m *Meta, self *PkgDecl) [][]string {
	if !d.chance(1, 4) {
		return nil
	}
	nlines := 1
	if d.chance(1, 4) {
		nlines = 2
	}
	var out [][]string
	for l := 0; l < nlines; l++ {
		k := d.Draw(5) // 0 = bare
		var list []string
		for j := 0; j < k; j++ {
			switch d.Draw(4) {
			case 0:
				list = append(list, m.Decls[d.Draw(len(m.Decls))].Name)
			case 1:
				list = append(list, m.Decls[d.Draw(len(m.Decls))].Path)
			case 2:
				list = append(list, junkPkgs[d.Draw(len(junkPkgs))])
			default:
				if len(list) > 0 {
					list = append(list, list[d.Draw(len(list))]) // duplicate
				} else {
					list = append(list, self.Name)
				}
			}
		}
		out = append(out, list)
	}
	return out
}

// cloneDecls gives pd the declaration model of its twin, type names adapted.
func cloneDecls(m *Meta, pd *PkgDecl) {
	src := m.Decls[pd.TwinOf]
	ren := func(s string) string { return strings.ReplaceAll(s, "T"+src.Qual, "T"+pd.Qual) }
	renAll := func(a []string) []string {
		var out []string
		for _, x := range a {
			out = append(out, ren(x))
		}
		return out
	}
	for _, t := range src.Types {
		c := *t
		c.Name = ren(t.Name)
		c.CtorLines, c.CtorNames, c.Impl = renAll(t.CtorLines), renAll(t.CtorNames), renAll(t.Impl)
		pd.Types = append(pd.Types, &c)
	}
	pd.FuncTest, pd.FuncPkgOnly = src.FuncTest, src.FuncPkgOnly
	pd.Hidden, pd.HiddenMutB = src.Hidden, src.HiddenMutB
	pd.SplitDecl, pd.Grouped = src.SplitDecl, src.Grouped
	pd.Reexports = append([]Reexport(nil), src.Reexports...)
}

func genDecls(d drw, w *World, m *Meta, pd *PkgDecl) {
	if pd.TwinOf >= 0 {
		cloneDecls(m, pd)
		return
	}
	// most real packages carry few annotations: a third of the generated ones are sparse
	// (only the type-level annotations of their first type), so that "this package has no
	// annotation of kind K at all" is a common situation, not a rare one
	sparse := d.chance(1, 3)
	pd.Sparse = sparse
	nt := d.rng(1, 3)
	shared := d.chance(1, 2)
	if shared {
		nt++
	}
	for k := 0; k < nt; k++ {
		td := &TypeDecl{Name: fmt.Sprintf("T%s%d", pd.Qual, k)}
		if shared && k == nt-1 {
			td.Name = "Shared" // the same type (and interface) name in many packages of the world
		}
		if d.chance(3, 5) {
			td.Immutable = true
			td.ImmLine = []string{"// @immutable", "//@immutable", "// @immutable value object", "//   @immutable"}[pickRare(d, 4)]
			td.MutB = d.chance(2, 5)
			td.MutCD = d.chance(1, 5)
		}
		if d.chance(1, 2) {
			nl := 1
			if d.chance(1, 5) {
				nl = 2
			}
			for l := 0; l < nl; l++ {
				cnt := d.rng(1, 3)
				if d.chance(1, 12) {
					cnt = d.rng(4, 12)
				}
				var names []string
				pool := []string{"New" + td.Name, "Make" + td.Name, "Build" + td.Name, "new" + td.Name, "Init"}
				if d.chance(1, 6) {
					pool = []string{"new" + td.Name} // only an unexported constructor
				}
				for j := 0; j < cnt; j++ {
					names = append(names, pool[d.Draw(len(pool))])
				}
				sep := ", "
				switch pickRare(d, 3) {
				case 1:
					sep = ","
				case 2:
					sep = " ,  "
				}
				line := "// @constructor " + strings.Join(names, sep)
				if d.chance(1, 10) {
					line += ","
				}
				td.CtorLines = append(td.CtorLines, line)
				td.CtorNames = append(td.CtorNames, names...)
			}
		}
		td.TestOnly = d.chance(1, 5)
		td.PkgOnly = genPkgOnly(d, m, pd)
		td.PMTest = d.chance(1, 5)
		td.VMTest = d.chance(1, 6)
		td.PMPkgOnly = genPkgOnly(d, m, pd)
		td.VMPkgOnly = genPkgOnly(d, m, pd)
		td.NewTest = d.chance(1, 8)
		if d.chance(1, 2) {
			td.NewPkgOnly = genPkgOnly(d, m, pd)
		}
		if sparse {
			td.TestOnly, td.PMTest, td.VMTest, td.NewTest = false, false, false, false
			td.PMPkgOnly, td.VMPkgOnly, td.NewPkgOnly = nil, nil, nil
			if k > 0 {
				td.Immutable, td.CtorLines, td.CtorNames, td.PkgOnly, td.MutB, td.MutCD = false, nil, nil, nil, false, false
			}
		}
		// @implements
		if d.chance(1, 3) {
			switch d.Draw(7) {
			case 6:
				td.Impl = append(td.Impl, "// @implements &J"+td.Name) // two methods missing: IMPL03 with a list
			case 0:
				td.Impl = append(td.Impl, "// @implements &I"+td.Name)
			case 1:
				td.Impl = append(td.Impl, "// @implements I"+td.Name) // value type lacks PM: IMPL03
			case 2:
				td.Impl = append(td.Impl, "// @implements Missing"+td.Name) // IMPL02
			case 3:
				td.Impl = append(td.Impl, "// @implements &zz.Iface") // IMPL01
			default:
				if len(pd.Imports) > 0 {
					dep := m.Decls[pd.Imports[d.Draw(len(pd.Imports))]]
					if len(dep.Types) > 0 {
						ref := d.Draw(len(dep.Types))
						amp := "&"
						if d.chance(1, 4) {
							amp = ""
						}
						td.Impl = append(td.Impl, fmt.Sprintf("// @implements %s%s.I%s", amp, dep.Qual, dep.Types[ref].Name))
					}
				} else {
					td.Impl = append(td.Impl, "// @implements &I"+td.Name)
				}
			}
		}
		pd.Types = append(pd.Types, td)
	}
	pd.FuncTest = d.chance(1, 4)
	pd.FuncPkgOnly = genPkgOnly(d, m, pd)
	if sparse {
		pd.FuncTest, pd.FuncPkgOnly = false, nil
	}
	pd.Hidden = d.chance(1, 4)
	pd.HiddenMutB = d.chance(1, 2)
	pd.Bulk = bulkWorld && pd.Index <= 1
	for _, j := range pd.Imports {
		dep := m.Decls[j]
		if len(dep.Types) > 0 && (d.chance(1, 2) || sparse) {
			tn := dep.Types[d.Draw(len(dep.Types))].Name
			pd.Reexports = append(pd.Reexports, Reexport{Dep: j, Type: tn, Fn: "GetX" + dep.Qual + tn})
		}
	}
}

// pickRare returns 0 most of the time, else 1..n-1.
func pickRare(d drw, n int) int {
	if !d.chance(1, 5) {
		return 0
	}
	return d.rng(1, n-1)
}

// ---------------------------------------------------------------- rendering

type src struct {
	b    strings.Builder
	line int
}

func (s *src) ln(format string, a ...any) int {
	s.line++
	fmt.Fprintf(&s.b, format, a...)
	s.b.WriteByte('\n')
	return s.line
}

func pkgOnlyLines(s *src, indent string, lists [][]string) {
	for _, l := range lists {
		if len(l) == 0 {
			s.ln("%s// @packageonly", indent)
		} else {
			s.ln("%s// @packageonly %s", indent, strings.Join(l, ", "))
		}
	}
}

func importLines(s *src, m *Meta, deps []int) {
	importLinesStd(s, m, deps, false)
}

func importLinesStd(s *src, m *Meta, deps []int, withUnsafe bool) {
	if len(deps) == 0 && !withUnsafe {
		return
	}
	s.ln("import (")
	if withUnsafe {
		s.ln("\t\"unsafe\"") // the go command never vets "unsafe": no fact file exists for it
		s.ln("")
	}
	for _, j := range deps {
		dep := m.Decls[j]
		if dep.AliasImport || dep.Qual != dep.Name {
			s.ln("\t%s %q", dep.Qual, dep.Path)
		} else {
			s.ln("\t%q", dep.Path)
		}
	}
	s.ln(")")
	s.ln("")
}

func renderDecl(d drw, w *World, m *Meta, pd *PkgDecl) []File {
	s := &src{}
	fs := s // where constructors, methods and functions go
	if pd.SplitDecl {
		fs = &src{}
		fs.ln("package %s", pd.Name)
		fs.ln("")
	}
	if !m.Clean && d.chance(1, 25) {
		s.ln("// @ignore IMM03")
	}
	s.ln("package %s", pd.Name)
	s.ln("")
	for n := 0; n < pd.Pad; n += 64 {
		s.ln("// filler filler filler filler filler filler filler filler fill")
	}
	// which deps does the declaration file need? re-exported types and @implements targets
	need := []int{}
	for _, r := range pd.Reexports {
		if !contains(need, r.Dep) {
			need = append(need, r.Dep)
		}
	}
	for _, td := range pd.Types {
		for _, l := range td.Impl {
			for _, j := range pd.Imports {
				if strings.Contains(l, " "+m.Decls[j].Qual+".") || strings.Contains(l, "&"+m.Decls[j].Qual+".") {
					if !contains(need, j) {
						need = append(need, j)
					}
				}
			}
		}
	}
	importLines(s, m, need)
	for _, j := range need {
		// keep the import used even if only a comment refers to it
		s.ln("var _ = %s.%s", m.Decls[j].Qual, m.Decls[j].AnchorName())
	}
	s.ln("")
	s.ln("// %s keeps imports of this package used.", pd.AnchorName())
	s.ln("func %s() int { return %d }", pd.AnchorName(), pd.Index)
	s.ln("")
	for _, td := range pd.Types {
		s.ln("// %s is a generated type.", td.Name)
		if td.Immutable {
			s.ln("%s", td.ImmLine)
		}
		for _, l := range td.CtorLines {
			s.ln("%s", l)
		}
		if td.TestOnly {
			s.ln("// @testonly")
		}
		pkgOnlyLines(s, "", td.PkgOnly)
		for _, l := range td.Impl {
			s.ln("%s", l)
		}
		if d.chance(1, 8) {
			// annotation-looking lines that the grammar rejects (no names, a colon, a stray word)
			s.ln("%s", []string{"// @constructor", "// @packageonly: nosuch", "// @constructor 9lives", "// @implementsNothing"}[d.Draw(4)])
		}
		s.ln("type %s struct {", td.Name)
		s.ln("\tA int")
		if td.MutB {
			s.ln("\t// @mutable")
		}
		s.ln("\tB int")
		if td.MutCD {
			s.ln("\t// @mutable")
		}
		s.ln("\tC, D int")
		s.ln("\tItems []int")
		s.ln("\tM     map[string]int")
		s.ln("}")
		s.ln("")
		s.ln("// I%s is implemented by *%s.", td.Name, td.Name)
		s.ln("type I%s interface {", td.Name)
		s.ln("\tPM() int")
		s.ln("\tVM() int")
		s.ln("}")
		s.ln("")
		s.ln("// J%s asks for more than %s has.", td.Name, td.Name)
		s.ln("type J%s interface {", td.Name)
		s.ln("\tPM() int")
		s.ln("\tZeta%s(a int, b string) error", pd.Qual)
		s.ln("\tAlpha(xs ...int) (*%s, error)", td.Name)
		s.ln("\tMid%d() map[string][]int", pd.Index)
		s.ln("}")
		s.ln("")
		if td.NewTest {
			fs.ln("// @testonly")
		}
		pkgOnlyLines(fs, "", td.NewPkgOnly)
		fs.ln("func New%s() *%s {", td.Name, td.Name)
		fs.ln("\tt := &%s{Items: []int{0}, M: map[string]int{}}", td.Name)
		fs.ln("\tt.A = 1")
		fs.ln("\treturn t")
		fs.ln("}")
		fs.ln("")
		fs.ln("func Make%s() %s {", td.Name, td.Name)
		fs.ln("\tvar t %s", td.Name)
		fs.ln("\tt.B++")
		fs.ln("\treturn t")
		fs.ln("}")
		fs.ln("")
		for _, cn := range td.CtorNames {
			if cn == "new"+td.Name {
				// an unexported constructor that really exists (it is invisible in export
				// data unless something exported refers to it)
				fs.ln("func new%s() *%s { return &%s{} }", td.Name, td.Name, td.Name)
				fs.ln("")
				break
			}
		}
		fs.ln("// Get%s is never annotated.", td.Name)
		fs.ln("func Get%s() *%s { return New%s() }", td.Name, td.Name, td.Name)
		fs.ln("")
		if td.PMTest {
			fs.ln("// @testonly")
		}
		pkgOnlyLines(fs, "", td.PMPkgOnly)
		fs.ln("func (t *%s) PM() int { return t.A }", td.Name)
		fs.ln("")
		if td.VMTest {
			fs.ln("// @testonly")
		}
		pkgOnlyLines(fs, "", td.VMPkgOnly)
		fs.ln("func (t %s) VM() int { return t.B }", td.Name)
		fs.ln("")
	}
	if pd.Grouped {
		// a grouped declaration: the group's doc comment applies to the spec without a doc of its own
		s.ln("// @immutable")
		s.ln("// @constructor NewG%sa, NewG%sb", pd.Qual, pd.Qual)
		s.ln("type (")
		s.ln("\tG%sa struct {", pd.Qual)
		s.ln("\t\tA int")
		s.ln("\t\t// @mutable")
		s.ln("\t\tB int")
		s.ln("\t}")
		s.ln("")
		s.ln("\t// G%sb has a doc comment of its own.", pd.Qual)
		s.ln("\t// @testonly")
		s.ln("\tG%sb struct {", pd.Qual)
		s.ln("\t\tA int")
		s.ln("\t\tB int")
		s.ln("\t}")
		s.ln(")")
		s.ln("")
		fs.ln("func NewG%sa() *G%sa { return &G%sa{} }", pd.Qual, pd.Qual, pd.Qual)
		fs.ln("func NewG%sb() *G%sb { return &G%sb{} }", pd.Qual, pd.Qual, pd.Qual)
		fs.ln("func GetG%sa() *G%sa { return NewG%sa() }", pd.Qual, pd.Qual, pd.Qual)
		fs.ln("func GetG%sb() *G%sb { return NewG%sb() }", pd.Qual, pd.Qual, pd.Qual)
		fs.ln("")
	}
	if pd.Hidden {
		// an unexported annotated type whose values leave the package
		s.ln("// u%s is not exported, its values are.", pd.Qual)
		s.ln("// @immutable")
		s.ln("// @constructor newU%s", pd.Qual)
		s.ln("type u%s struct {", pd.Qual)
		s.ln("\tA int")
		if pd.HiddenMutB {
			s.ln("\t// @mutable")
		}
		s.ln("\tB int")
		s.ln("}")
		s.ln("")
		s.ln("func newU%s() *u%s { return &u%s{} }", pd.Qual, pd.Qual, pd.Qual)
		s.ln("")
		s.ln("// GetU%s hands out the unexported type.", pd.Qual)
		s.ln("func GetU%s() *u%s { return newU%s() }", pd.Qual, pd.Qual, pd.Qual)
		s.ln("")
	}
	if pd.FuncTest {
		fs.ln("// @testonly")
	}
	pkgOnlyLines(fs, "", pd.FuncPkgOnly)
	fs.ln("func %s() int { return 7 }", pd.FuncName())
	fs.ln("")
	for _, r := range pd.Reexports {
		dep := m.Decls[r.Dep]
		s.ln("// %s hands out a type of %s.", r.Fn, dep.Path)
		s.ln("func %s() *%s.%s { return %s.Get%s() }", r.Fn, dep.Qual, r.Type, dep.Qual, r.Type)
		s.ln("")
	}
	files := []File{{Name: "decl.go", Src: s.b.String()}}
	if pd.SplitDecl {
		files = append(files, File{Name: "methods.go", Src: fs.b.String()})
	}
	return files
}

type shape struct {
	name  string
	lines []string // Q. = qualifier, T = type name, F = function name, X = reexport getter
}

var shapes = []shape{
	{"assign", []string{"x.A = 1"}},
	{"compound", []string{"x.A += 2"}},
	{"incdec", []string{"x.A++"}},
	{"index-slice", []string{"x.Items[0] = 3"}},
	{"index-map", []string{`x.M["k"] = 4`}},
	{"index-compound", []string{"x.Items[(len(x.Items)+x.A)%1] = 12"}},
	{"assign-B", []string{"x.B = 5"}},
	{"assign-C", []string{"x.C = 6"}},
	{"decr-D", []string{"x.D--"}},
	{"multi-assign", []string{"x.A, x.B = 7, 8"}},
	{"deref-assign", []string{"(*x).A = 10"}},
	{"copy-assign", []string{"y := *x", "y.A = 9", "_ = y"}},
	{"lit", []string{"_ = Q.T{A: 1}"}},
	{"lit-ptr", []string{"_ = &Q.T{}"}},
	{"lit-elided", []string{"_ = []Q.T{{}, {A: 2}}"}},
	{"new", []string{"_ = new(Q.T)"}},
	{"var", []string{"var v Q.T", "_ = v"}},
	{"var-ptr", []string{"var p *Q.T", "_ = p"}},
	{"call-func", []string{"_ = Q.F()"}},
	{"call-new", []string{"_ = Q.NewT()"}},
	{"call-make", []string{"mk := Q.MakeT()", "_ = mk"}},
	{"call-pm", []string{"_ = x.PM()"}},
	{"call-vm", []string{"_ = x.VM()"}},
	{"method-value", []string{"mv := x.PM", "_ = mv"}},
	{"funclit-param", []string{"fn := func(v *Q.T) int { return v.A }", "_ = fn"}},
	{"store-overwrite", []string{"*x = *Q.GetT()"}},
}

func expand(line, qual, typ, fn string) string {
	line = strings.ReplaceAll(line, "NewT", "New"+typ)
	line = strings.ReplaceAll(line, "MakeT", "Make"+typ)
	line = strings.ReplaceAll(line, "GetT", "Get"+typ)
	line = strings.ReplaceAll(line, "Q.T", qual+typ)
	line = strings.ReplaceAll(line, "Q.F", qual+fn)
	line = strings.ReplaceAll(line, "Q.", qual)
	return line
}

// renderUses writes use functions for a package: uses of every import's
// items, and of its own.
func renderUses(d drw, w *World, m *Meta, pd *PkgDecl, fileName string, nfuncs int, selfUses bool) File {
	s := &src{}
	s.ln("package %s", pd.Name)
	s.ln("")
	fileImports := pd.Imports
	if fileName == "more.go" && len(pd.Imports) >= 2 && d.chance(2, 3) {
		// this file imports only some of the package's imports: a type of a package that
		// another file imports can still arrive here through a re-exporting getter
		fileImports = nil
		for _, j := range pd.Imports {
			if d.chance(1, 2) {
				fileImports = append(fileImports, j)
			}
		}
		if len(fileImports) == 0 {
			fileImports = []int{pd.Imports[len(pd.Imports)-1]}
		}
	}
	if pd.BlankImport >= 0 && fileName == "use.go" {
		s.ln("import _ %q // imported for its side effects only", m.Decls[pd.BlankImport].Path)
		s.ln("")
	}
	importLinesStd(s, m, fileImports, pd.UnsafeFirst)
	if pd.UnsafeFirst {
		s.ln("var _ = unsafe.Sizeof(0)")
	}
	for _, j := range fileImports {
		s.ln("func anchor%s%s() int { return %s.%s() }", strings.TrimSuffix(strings.ReplaceAll(fileName, ".", "_"), "_go"), m.Decls[j].Qual, m.Decls[j].Qual, m.Decls[j].AnchorName())
	}
	s.ln("")
	targets := append([]int(nil), fileImports...)
	if selfUses {
		targets = append(targets, pd.Index)
	}
	tag := strings.TrimSuffix(strings.ReplaceAll(fileName, ".", "_"), "_go")
	fn := 0
	for _, j := range targets {
		dep := m.Decls[j]
		qual := dep.Qual + "."
		if j == pd.Index {
			qual = ""
		}
		k := nfuncs
		for f := 0; f < k; f++ {
			td := dep.Types[d.Draw(len(dep.Types))]
			if lineDirectives && !m.Clean && d.chance(1, 12) {
				s.ln("//line grammar_%s.y:%d", tag, 2+fn) // small numbers: ignorereader panics in LineStart when the adjusted line exceeds the physical line count (C10, not claimed)
			}
			s.ln("func use_%s_%d() {", tag, fn)
			fn++
			s.ln("\tx := %sGet%s()", qual, td.Name)
			s.ln("\t_ = x")
			ns := d.rng(2, 7)
			used := map[string]bool{}
			for q := 0; q < ns; q++ {
				sh := shapes[d.Draw(len(shapes))]
				if used[sh.name] {
					continue // keep variable names unique per function
				}
				used[sh.name] = true
				ig := ""
				if !m.Clean && d.chance(1, 10) {
					ig = []string{"ALL", "IMM", "CTOR", "ALL", "IMM01", "TONL", "PKGO", "imm"}[d.Draw(8)]
					if d.chance(1, 2) {
						s.ln("\t// @ignore %s", ig)
						ig = ""
					}
				}
				for li, l := range sh.lines {
					text := expand(l, qual, td.Name, dep.FuncName())
					suffix := ""
					if li == 0 && ig != "" {
						suffix = " // @ignore " + ig
					}
					if longLines && li == 0 && ig == "" && d.chance(1, 3) {
						switch d.Draw(3) {
						case 0:
							text = "/* " + filler(d, d.rng(150, 450)) + " */ " + text
						case 1:
							suffix = " // " + filler(d, d.rng(150, 450))
						default:
							text = "/* " + filler(d, d.rng(20, 260)) + " */ " + text
							suffix = " // " + filler(d, d.rng(20, 400))
						}
					}
					line := s.ln("\t%s%s", text, suffix)
					if li == 0 || strings.Contains(l, "y.A") {
						m.Uses = append(m.Uses, UseSite{ID: len(m.Uses), Pkg: pd.Index, File: fileName, Line: line, Dep: j, Shape: sh.name, Text: l, Type: td.Name})
					}
				}
			}
			// indirect shape: a type of a package this one may not import, reached through dep
			if j != pd.Index && len(dep.Reexports) > 0 && (d.chance(1, 2) || (pd.Sparse && fileName == "more.go")) {
				r := dep.Reexports[d.Draw(len(dep.Reexports))]
				line := s.ln("\t%s%s().A = 11", qual, r.Fn)
				m.Uses = append(m.Uses, UseSite{ID: len(m.Uses), Pkg: pd.Index, File: fileName, Line: line, Dep: r.Dep, Shape: "indirect-assign", Text: "Q." + r.Fn + "().A = 11", Type: r.Type})
				line = s.ln("\t_ = %s%s().PM()", qual, r.Fn)
				m.Uses = append(m.Uses, UseSite{ID: len(m.Uses), Pkg: pd.Index, File: fileName, Line: line, Dep: r.Dep, Shape: "indirect-call", Text: "_ = Q." + r.Fn + "().PM()", Type: r.Type})
			}
			s.ln("}")
			s.ln("")
		}
		if dep.Grouped && d.chance(2, 3) {
			s.ln("func grp_%s_%d() {", tag, fn)
			fn++
			for _, g := range []string{"a", "b"} {
				gt := "G" + dep.Qual + g
				s.ln("\tg%s := %sGet%s()", g, qual, gt)
				for _, l := range []string{"g" + g + ".A = 31", "g" + g + ".B++", "_ = " + qual + gt + "{}"} {
					if !d.chance(2, 3) {
						continue
					}
					line := s.ln("\t%s", l)
					m.Uses = append(m.Uses, UseSite{ID: len(m.Uses), Pkg: pd.Index, File: fileName, Line: line, Dep: j, Shape: "grouped:" + g, Text: strings.Replace(l, qual+gt, "Q."+gt, 1), Type: gt})
				}
				s.ln("\t_ = g%s", g)
			}
			s.ln("}")
			s.ln("")
		}
		if dep.Hidden && d.chance(2, 3) {
			s.ln("func hid_%s_%d() {", tag, fn)
			fn++
			s.ln("\tu := %sGetU%s()", qual, dep.Qual)
			for _, l := range []string{"u.A = 21", "u.B++", "u.A += 2"} {
				if !d.chance(2, 3) {
					continue
				}
				line := s.ln("\t%s", l)
				m.Uses = append(m.Uses, UseSite{ID: len(m.Uses), Pkg: pd.Index, File: fileName, Line: line, Dep: j, Shape: "hidden:" + l, Text: l, Type: "u" + dep.Qual})
			}
			s.ln("\t_ = u")
			s.ln("}")
			s.ln("")
		}
		// a function of THIS package that carries the name of a constructor of an
		// imported type: gogreement exempts by function name, so what it reports in
		// there depends on the imported constructor list arriving intact
		if j != pd.Index && fileName == "use.go" && d.chance(1, 3) {
			td := dep.Types[d.Draw(len(dep.Types))]
			name := "New" + td.Name
			if len(td.CtorNames) > 0 {
				name = td.CtorNames[d.Draw(len(td.CtorNames))]
			}
			own := false
			for _, t := range pd.Types {
				if t.Name == td.Name {
					own = true // this package declares the same names itself
				}
			}
			if !own && !ctorFnTaken[pd.Index][name] {
				if ctorFnTaken[pd.Index] == nil {
					ctorFnTaken[pd.Index] = map[string]bool{}
				}
				ctorFnTaken[pd.Index][name] = true
				s.ln("func %s() {", name)
				s.ln("\tx := %sGet%s()", qual, td.Name)
				s.ln("\t_ = x")
				for _, shn := range []string{"assign", "incdec", "index-map", "lit", "new", "var"} {
					if !d.chance(2, 3) {
						continue
					}
					sh := shapeByName(shn)
					for li, l := range sh.lines {
						line := s.ln("\t%s", expand(l, qual, td.Name, dep.FuncName()))
						if li == 0 {
							m.Uses = append(m.Uses, UseSite{ID: len(m.Uses), Pkg: pd.Index, File: fileName, Line: line, Dep: j, Shape: "ctorfn-" + sh.name, Text: l, Type: td.Name})
						}
					}
				}
				s.ln("}")
				s.ln("")
			}
		}
		// signature and field uses of a type of dep
		if d.chance(1, 2) {
			td := dep.Types[d.Draw(len(dep.Types))]
			line := s.ln("func sig_%s_%d(p1 %s%s, p2 *%s%s) *%s%s { _ = p1; return p2 }", tag, fn, qual, td.Name, qual, td.Name, qual, td.Name)
			m.Uses = append(m.Uses, UseSite{ID: len(m.Uses), Pkg: pd.Index, File: fileName, Line: line, Dep: j, Shape: "signature", Text: "", Type: td.Name})
			fn++
			s.ln("")
			s.ln("type holder_%s_%d struct {", tag, fn)
			line = s.ln("\tF %s%s", qual, td.Name)
			m.Uses = append(m.Uses, UseSite{ID: len(m.Uses), Pkg: pd.Index, File: fileName, Line: line, Dep: j, Shape: "field", Text: "", Type: td.Name})
			s.ln("}")
			fn++
			s.ln("")
		}
	}
	if pd.Bulk && fileName == "use.go" {
		td := pd.Types[0]
		s.ln("func bulk_%s() {", tag)
		s.ln("\tx := Get%s()", td.Name)
		for i := 0; i < 340; i++ {
			s.ln("\tx.A = %d", i)
			s.ln("\t_ = %s{}", td.Name)
		}
		s.ln("}")
		s.ln("")
	}
	return File{Name: fileName, Src: s.b.String()}
}

func renderPkg(d drw, w *World, m *Meta, pd *PkgDecl) {
	p := Pkg{Path: pd.Path, Name: pd.Name}
	if pd.Index < depModuleUpTo {
		p.ModPath, p.ModVersion = "ex.test/depmod", "v1.4.0"
	}
	for _, j := range pd.Imports {
		p.Imports = append(p.Imports, m.Decls[j].Path)
	}
	if pd.BlankImport >= 0 {
		p.Imports = append(p.Imports, m.Decls[pd.BlankImport].Path)
	}
	decl := renderDecl(d, w, m, pd)
	use := renderUses(d, w, m, pd, "use.go", d.rng(1, 2), true)
	if pd.UsesFirst {
		p.Files = append(append(p.Files, use), decl...)
	} else {
		p.Files = append(append(p.Files, decl...), use)
	}
	if d.chance(1, 4) || (pd.Sparse && len(pd.Imports) >= 2) {
		p.Files = append(p.Files, renderUses(d, w, m, pd, "more.go", 1, d.chance(1, 2)))
	}
	if contains(pd.Imports, 0) && len(ctorFnTaken[pd.Index]) == 0 && d.chance(1, 4) {
		// a dot-import: the names of package 0 are visible without qualifier, also to
		// an @implements comment (only if nothing it exports can collide here)
		base := m.Decls[0]
		clash := false
		for _, t := range base.Types {
			if t.Name == "Shared" {
				clash = true
			}
		}
		if !clash {
			var b strings.Builder
			fmt.Fprintf(&b, "package %s\n\nimport . %q\n\n", pd.Name, base.Path)
			fmt.Fprintf(&b, "// Dot%s names an interface of the dot-imported package without qualifier.\n// @implements &I%s\ntype Dot%s struct{}\n\n", pd.Qual, base.Types[0].Name, pd.Qual)
			fmt.Fprintf(&b, "func (d *Dot%s) PM() int { return %s() }\nfunc (d Dot%s) VM() int  { return 0 }\n", pd.Qual, base.AnchorName(), pd.Qual)
			p.Files = append(p.Files, File{Name: "dot.go", Src: b.String()})
		}
	}
	testType := ""
	if d.chance(1, 4) {
		f := renderUses(d, w, m, pd, "use_test.go", 1, true)
		if d.chance(1, 2) {
			// an annotated type declared in an in-package test file (export_test.go
			// style): it exists only in the test variant of the package
			testType = "Tt" + pd.Qual
			var b strings.Builder
			fmt.Fprintf(&b, "\n// %s is declared in a test file.\n// @immutable\n// @constructor New%s\ntype %s struct {\n\tA int\n\tB int\n}\n\n", testType, testType, testType)
			fmt.Fprintf(&b, "func New%s() *%s { return &%s{} }\n\nfunc touch%s() {\n\tx := New%s()\n\tx.A = 2\n\t_ = %s{}\n}\n", testType, testType, testType, testType, testType, testType)
			f.Src += b.String()
		}
		p.Files = append(p.Files, f)
	}
	if d.chance(1, 4) {
		// an external test package: it imports the TEST variant of this package
		var b strings.Builder
		td := pd.Types[d.Draw(len(pd.Types))]
		fmt.Fprintf(&b, "package %s_test\n\nimport %s %q\n\n", pd.Name, pd.Qual, pd.Path)
		fmt.Fprintf(&b, "func extUse() {\n\tx := %s.Get%s()\n\t_ = x\n\tx.A = 1\n\tx.B++\n\t_ = %s.%s{}\n\t_ = new(%s.%s)\n\t_ = %s.%s()\n\t_ = x.PM()\n", pd.Qual, td.Name, pd.Qual, td.Name, pd.Qual, td.Name, pd.Qual, pd.FuncName())
		if testType != "" {
			fmt.Fprintf(&b, "\ty := %s.New%s()\n\ty.A = 3\n\ty.B += 4\n\t_ = %s.%s{A: 1}\n\tvar z %s.%s\n\t_ = z\n", pd.Qual, testType, pd.Qual, testType, pd.Qual, testType)
		}
		b.WriteString("}\n")
		p.Files = append(p.Files, File{Name: "ext_test.go", Src: b.String()})
	}
	if strings.Contains(w.Cfg.ExcludePaths, "gen_") && d.chance(1, 2) {
		p.Files = append(p.Files, renderUses(d, w, m, pd, "gen_skip.go", 1, true))
	}
	w.Pkgs = append(w.Pkgs, p)
}
