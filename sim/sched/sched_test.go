package sched

import (
	"os"
	"testing"

	"verifsim/core"
)

var shared int

func hook(s *Sched) func(int) { return s.Yield }

func runToy(seed uint64, strategy int, dep bool) (Stats, int) {
	shared = 0
	s := New(core.NewTape(seed), Config{Strategy: strategy, MeanGap: 3, PCTDepth: 2, Horizon: 40})
	y := s.Yield
	mk := func(name string) *Task {
		return s.Add(name, func() {
			for i := 0; i < 20; i++ {
				y(i + 1)
				shared++
			}
		})
	}
	a, b := mk("a"), mk("b")
	if dep {
		b.DependsOn(a)
	}
	st := s.Run()
	return st, shared
}

func TestDeterministic(t *testing.T) {
	for strat := Sequential; strat <= RoundRobin; strat++ {
		for seed := uint64(1); seed < 20; seed++ {
			s1, v1 := runToy(seed, strat, true)
			s2, v2 := runToy(seed, strat, true)
			if s1.TraceHash != s2.TraceHash || v1 != 40 || v2 != 40 || s1.Switches != s2.Switches {
				t.Fatalf("strategy %d seed %d: not deterministic", strat, seed)
			}
		}
	}
}

// Under -race this test is expected to FAIL when run with -run Unordered:
// used by the self-test only (see selftest), not part of the normal suite.
func TestUnorderedToy(t *testing.T) {
	if !RaceBuild || os.Getenv("VERIFSIM_EXPECT_RACE") == "" {
		t.Skip("race build with VERIFSIM_EXPECT_RACE=1 only: this test is expected to be killed by the race detector")
	}
	st, _ := runToy(1, RandomWalk, false)
	t.Logf("switches=%d", st.Switches)
}
