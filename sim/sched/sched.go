// Package sched is the seeded cooperative scheduler. Every task is a real
// goroutine, but exactly one runs at any time; who runs next is decided by
// draws from the run's choice tape only, so a schedule is replayable and
// shrinkable.
//
// In the race build the hand-offs are invisible to the race detector
// (RaceDisable around every channel operation, scheduler functions norace):
// the only happens-before edges it sees are goroutine creation, the
// dependency edges declared with DependsOn (release at completion, acquire at
// start - what sync.Once/WaitGroup give in the real drivers), and whatever
// synchronisation the code under test performs itself. Two conflicting
// accesses from tasks the driver does not order are therefore reported as a
// data race although the execution was serialised.
package sched

import (
	"fmt"
	"runtime/debug"
)

type Chooser interface{ Draw(n int) int }

const (
	Sequential = iota // never preempt; lowest-index runnable task next (DFS order of the real sequential driver)
	RandomWalk        // preempt after a drawn gap, resume a uniformly drawn runnable task
	PCT               // random priorities, d priority change points
	RoundRobin        // preempt at every yield point, cyclic order
	Rendezvous        // hold every task that reaches a chosen site until nothing else can run: as many tasks as possible are inside that region at once
)

type Config struct {
	Strategy int
	MeanGap  int // RandomWalk: mean number of yield points between preemptions
	PCTDepth int // PCT: number of priority change points
	Horizon  int // PCT: estimated number of yield points of the run
	Site     int // Rendezvous: the yield site at which tasks are held
	Stall    int // number of tasks (drawn) that are held back until nothing else can run
	MaxSteps int
}

type Task struct {
	ID      int
	Name    string
	Run     func()
	deps    []*Task
	wake    chan struct{}
	done    bool
	started bool
	stalled bool
	prio    int
	parked  int // site at which the task is parked (0 = not started)
	tok     *byte
	Panic   any
	Stack   string
}

func (t *Task) DependsOn(d *Task) { t.deps = append(t.deps, d) }
func (t *Task) Done() bool        { return t.done }

type event struct {
	done bool
}

type Stats struct {
	Steps         int
	Switches      int
	Preemptions   int // switches away from a task that had not finished
	TraceHash     uint64
	SitePairs     map[[2]int]int
	Overrun       bool
	Interleaved   int // tasks that were preempted at least once
	MaxConcurrent int // max number of started-but-unfinished tasks
}

type Sched struct {
	cfg       Config
	ch        Chooser
	tasks     []*Task
	cur       *Task
	ctl       chan event
	steps     int
	next      int // step at which the next preemption happens
	stats     Stats
	trace     uint64
	pctAt     map[int]bool
	lowest    int
	ctlTok    byte
	preempted map[int]bool
}

func New(ch Chooser, cfg Config) *Sched {
	if cfg.MaxSteps == 0 {
		cfg.MaxSteps = 2000000
	}
	return &Sched{cfg: cfg, ch: ch, ctl: make(chan event), trace: 14695981039346656037, preempted: map[int]bool{}}
}

func (s *Sched) Add(name string, run func()) *Task {
	t := &Task{ID: len(s.tasks), Name: name, Run: run, wake: make(chan struct{}), tok: new(byte)}
	s.tasks = append(s.tasks, t)
	return t
}

func (s *Sched) Tasks() []*Task { return s.tasks }

//go:norace
func (s *Sched) mix(v int) {
	s.trace ^= uint64(int64(v))
	s.trace *= 1099511628211
}

//go:norace
func (s *Sched) runnable() []*Task {
	var out, stalled []*Task
	for _, t := range s.tasks {
		if t.done {
			continue
		}
		ok := true
		for _, d := range t.deps {
			if !d.done {
				ok = false
				break
			}
		}
		if !ok {
			continue
		}
		if t.stalled {
			stalled = append(stalled, t)
		} else {
			out = append(out, t)
		}
	}
	if len(out) == 0 {
		return stalled
	}
	return out
}

//go:norace
func (s *Sched) drawGap() int {
	switch s.cfg.Strategy {
	case RandomWalk:
		g := s.cfg.MeanGap
		if g < 1 {
			g = 1
		}
		return 1 + s.ch.Draw(2*g)
	case RoundRobin:
		return 1
	}
	return 1 << 60 // Sequential, PCT, Rendezvous: no gap-driven preemption
}

// pick chooses the task to run next. cur may be nil or finished.
//
//go:norace
func (s *Sched) pick(r []*Task) *Task {
	switch s.cfg.Strategy {
	case Sequential:
		return r[0]
	case PCT:
		best := r[0]
		for _, t := range r[1:] {
			if t.prio > best.prio {
				best = t
			}
		}
		return best
	case RoundRobin:
		if s.cur != nil {
			for _, t := range r {
				if t.ID > s.cur.ID {
					return t
				}
			}
		}
		return r[0]
	}
	return r[s.ch.Draw(len(r))]
}

// Yield is the simrt hook: called by the running task at every yield point.
//
//go:norace
func (s *Sched) Yield(site int) {
	t := s.cur
	if t == nil {
		return
	}
	s.steps++
	if s.steps > s.cfg.MaxSteps {
		s.stats.Overrun = true
		return
	}
	preempt := false
	if s.cfg.Strategy == Rendezvous {
		if site == s.cfg.Site {
			// park here; runnable() prefers tasks that are not held, so this one resumes
			// only when every other task is held too, finished, or waiting for one of them
			t.stalled = true
			t.parked = site
			if r := s.runnable(); !(len(r) == 1 && r[0] == t) {
				raceDisable()
				s.ctl <- event{}
				<-t.wake
				raceEnable()
			}
			t.stalled = false
		}
		return
	}
	if s.cfg.Strategy == PCT {
		if s.pctAt[s.steps] {
			s.lowest--
			t.prio = s.lowest
			preempt = true
		}
	} else if s.steps >= s.next {
		preempt = true
	}
	if !preempt {
		return
	}
	s.next = s.steps + s.drawGap()
	r := s.runnable()
	if len(r) <= 1 {
		return // nobody else could run
	}
	t.parked = site
	// hand control to the controller and wait to be resumed
	raceDisable()
	s.ctl <- event{}
	<-t.wake
	raceEnable()
}

// Run executes all tasks to completion under the configured strategy.
//
//go:norace
func (s *Sched) Run() Stats {
	s.stats.SitePairs = map[[2]int]int{}
	n := len(s.tasks)
	// per-run strategy set-up, all from the tape
	if s.cfg.Strategy == PCT {
		perm := make([]int, n)
		for i := range perm {
			perm[i] = i
		}
		for i := n - 1; i > 0; i-- {
			j := s.ch.Draw(i + 1)
			perm[i], perm[j] = perm[j], perm[i]
		}
		for i, t := range s.tasks {
			t.prio = perm[i] + 1
		}
		s.pctAt = map[int]bool{}
		h := s.cfg.Horizon
		if h < 10 {
			h = 10
		}
		for i := 0; i < s.cfg.PCTDepth; i++ {
			s.pctAt[1+s.ch.Draw(h)] = true
		}
	}
	for i := 0; i < s.cfg.Stall && n > 0; i++ {
		s.tasks[s.ch.Draw(n)].stalled = true
	}
	s.next = s.drawGap()
	if s.cfg.Strategy == RoundRobin {
		s.next = 1
	}

	// all goroutines are created now, after the world has been loaded: the
	// creation edge is the only thing ordering the load before the tasks
	for _, t := range s.tasks {
		t := t
		go s.body(t)
	}
	live := 0
	for {
		r := s.runnable()
		if len(r) == 0 {
			break
		}
		t := s.pick(r)
		from := -1
		fromSite := 0
		if s.cur != nil {
			from = s.cur.ID
			fromSite = s.cur.parked
			if !s.cur.done && s.cur != t {
				s.stats.Preemptions++
				s.preempted[s.cur.ID] = true
			}
		}
		if s.cur != t {
			s.stats.Switches++
			s.mix(s.steps)
			s.mix(from)
			s.mix(t.ID)
			if from >= 0 && !s.cur.done {
				s.stats.SitePairs[[2]int{fromSite, t.parked}]++
			}
		}
		if !t.started {
			t.started = true
			live++
			if live > s.stats.MaxConcurrent {
				s.stats.MaxConcurrent = live
			}
		}
		s.cur = t
		raceDisable()
		t.wake <- struct{}{}
		ev := <-s.ctl
		raceEnable()
		if ev.done {
			t.done = true
			live--
		}
	}
	s.cur = nil
	// the controller may now read what the tasks produced
	for _, t := range s.tasks {
		raceAcquire(t.tok)
	}
	s.stats.Steps = s.steps
	s.stats.TraceHash = s.trace
	s.stats.Interleaved = len(s.preempted)
	for _, t := range s.tasks {
		if !t.done {
			panic(fmt.Sprintf("sched: task %s never became runnable (dependency cycle?)", t.Name))
		}
	}
	return s.stats
}

//go:norace
func (s *Sched) body(t *Task) {
	raceDisable()
	<-t.wake
	raceEnable()
	// dependency edges: what the driver's Once/WaitGroup would give
	for _, d := range t.deps {
		raceAcquire(d.tok)
	}
	s.call(t)
	raceRelease(t.tok)
	raceDisable()
	s.ctl <- event{done: true}
	raceEnable()
}

func (s *Sched) call(t *Task) {
	defer func() {
		if p := recover(); p != nil {
			t.Panic = p
			t.Stack = string(debug.Stack())
		}
	}()
	t.Run()
}
