//go:build !race

package sched

const RaceBuild = false

func raceDisable()        {}
func raceEnable()         {}
func raceRelease(p *byte) {}
func raceAcquire(p *byte) {}
