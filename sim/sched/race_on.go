//go:build race

package sched

import (
	"runtime"
	"unsafe"
)

// RaceBuild reports whether the serialised-HB race oracle is active.
const RaceBuild = true

//go:norace
func raceDisable() { runtime.RaceDisable() }

//go:norace
func raceEnable() { runtime.RaceEnable() }

//go:norace
func raceRelease(p *byte) { runtime.RaceReleaseMerge(unsafe.Pointer(p)) }

//go:norace
func raceAcquire(p *byte) { runtime.RaceAcquire(unsafe.Pointer(p)) }
