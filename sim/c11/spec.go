package c11

import (
	"encoding/json"
	"strings"
	"time"

	"verifsim/core"
)

func Spec(tier string, seed uint64, raceBin string) *core.CheckSpec {
	worlds, raceWorlds := 1000, 350
	budget := 5 * time.Minute
	if tier == "thorough" {
		worlds, raceWorlds = 9000, 4000
		budget = 40 * time.Minute
	}
	e := Engine{}
	var legs []*core.Leg
	if raceBin != "" {
		// the race leg goes first: code that starts goroutines of its own can wedge the
		// cooperative schedule of the plain leg (watchdog, exit 2), but the race
		// detector has reported its unsynchronised accesses long before
		legs = append(legs, &core.Leg{Name: "driver-sim-race", Bin: raceBin, Runs: raceWorlds, Offset: 1 << 30,
			Opt: core.RunOpt{Tier: tier, Leg: "driver-sim-race", Params: map[string]string{"race": "1"}},
			Env: core.RaceEnv(), OnWorkerDeath: core.RaceDeath(e, seed)})
	}
	legs = append(legs, &core.Leg{Name: "driver-sim", Runs: worlds, Opt: core.RunOpt{Tier: tier, Leg: "driver-sim"}})
	return &core.CheckSpec{
		Engine: e, Tier: tier, Seed: seed, Budget: budget, MaxExec: 600, Legs: legs,
		Minimise: func(v *core.Violation, opt core.RunOpt) *core.Violation {
			if strings.HasPrefix(v.Sig, "data-race:") {
				return core.MinimiseSubprocess(raceBin, e, v, opt, 120)
			}
			return core.MinimiseInProcess(e, v, opt, 600)
		},
		Coverage: func(a *core.Agg) map[string]any { return coverage(a, raceBin != "") },
		Assumptions: []string{
			"preemption happens at function / closure / loop entry of gogreement code and at every pass.* callback; go/types, x/tools and the standard library run atomically",
			"the race oracle sees exactly the happens-before edges of the real drivers (goroutine creation after load, completion -> dependents) plus gogreement's own synchronisation; it does not depend on hitting a racy interleaving, only on both accesses executing",
			"run-to-run determinism is probed by repeating the identical decision sequence; a divergence caused by Go's randomised map iteration reproduces only probabilistically",
			"the driver is a stub modelled on x/tools v0.38.0 (checker.go / unitchecker.go); its faithfulness is validated under C06 against the real drivers",
			"worlds keep annotated uses inside function bodies (placement universality is C01/C02/C10's quantifier)",
		},
	}
}

func coverage(a *core.Agg, race bool) map[string]any {
	samples := []any{}
	for _, s := range a.Samples["case"] {
		var v any
		json.Unmarshal(s, &v)
		samples = append(samples, v)
	}
	if len(samples) > 2 {
		samples = samples[:2]
	}
	return map[string]any{
		"evaluations":         a.Counters["executions"],
		"distinct_nontrivial": a.DistinctCount("nontrivial"),
		"rule": "one evaluation = one simulated execution of all analyzer actions of one generated world under one (driver, run set, root order, schedule); " +
			"distinct = distinct (world hash, schedule-trace hash, outcome) tuple; non-trivial = the schedule preempted at least one running action (fault-free sequential executions are counted as baseline_executions)",
		"samples":                               samples,
		"worlds":                                a.Counters["worlds"],
		"distinct_worlds":                       a.DistinctCount("worlds"),
		"packages":                              a.Counters["world.packages"],
		"baseline_executions":                   a.Counters["baseline_executions"],
		"executions_with_preemption":            a.Counters["executions_with_preemption"],
		"outcome_comparisons":                   a.Counters["outcome_comparisons"],
		"analyzer_actions_run":                  a.Counters["actions"],
		"drivers":                               a.WithPrefix("driver."),
		"strategies":                            a.WithPrefix("strategy."),
		"scheduler":                             a.WithPrefix("sched."),
		"distinct_schedule_traces":              a.DistinctCount("schedules"),
		"distinct_preempted_resumed_site_pairs": a.DistinctCount("site_pairs"),
		"probes":                                a.WithPrefix("probe."),
		"race_oracle_leg":                       race,
		"race_oracle_worlds":                    a.Counters["leg.driver-sim-race.runs"],
		"fault_kinds": map[string]any{"preemption": a.Counters["sched.preemptions"], "root-order permutation / run-set change": a.Counters["executions"] - a.Counters["worlds"], "stall": "drawn per execution (1 in 5)",
			"permuted_parse_order": a.Counters["fault.permuted_parse_order"], "slow_disk_stalled_read_armed": a.Counters["fault.stalled_read_armed"], "slow_disk_stalled_read_fired": a.Counters["fault.stalled_read_fired"]},
		"processor_count_seen_by_code_under_test": a.WithPrefix("env."), // executions per simulated runtime.GOMAXPROCS/NumCPU value (others: 1)
		"inconclusive":   a.WithPrefix("inconclusive."),
		"simulated_time": "none: gogreement has no timer; progress is counted in yield points (scheduler.steps)",
		"real_code":      []string{"all eight gogreement analyzers and everything below them (instrumented copy of the working tree)", "analysis.Validate, go/parser, go/types, encoding/gob, gcexportdata"},
		"stubbed":        []string{"the driver (action graph, scheduling, fact and result plumbing): checker-sim / vet-sim", "the disk (in-memory)"},
		"budget_stops":   a.Counters["budget_stops"],
		"exhaustive":     false,
	}
}
