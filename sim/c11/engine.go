// Package c11 decides property C11: for a fixed world and configuration the
// outcome of every root package must not depend on the schedule of analyzer
// actions, on the order or choice of co-analysed packages, or on the run; and
// concurrent actions must be free of data races (race build: the
// serialised-happens-before oracle of package sched).
package c11

import (
	"encoding/json"
	"fmt"
	"sort"
	"strings"

	"github.com/a14e/gogreement/src/simrt"
	"verifsim/core"
	"verifsim/driver"
	"verifsim/sched"
	"verifsim/world"
)

type Engine struct{}

func init() { core.Register(Engine{}) }

func (Engine) ID() string { return "C11" }

// ExecSpec is one execution of the world: driver parameters plus the recorded
// scheduler decisions (so a replay needs neither the generator nor a PRNG).
type ExecSpec struct {
	Label  string       `json:"label"`
	Ex     driver.Exec  `json:"exec"`
	Sched  sched.Config `json:"sched"`
	Tape   []uint32     `json:"decisions"` // recorded during the original execution
	Repeat int          `json:"repeat"`    // identical re-executions (run-to-run determinism)
	// Procs is the processor count the code under test sees (runtime.GOMAXPROCS) during this
	// execution (through the simrt.Procs seam); 0 = the worker's own setting (1). "Parallel on 16 cores vs sequential" is
	// part of C11's quantifier: the outcome must not depend on it. Which task runs is still the
	// seeded scheduler's decision alone (the determinism self-test runs the workers at 1, 4, 16).
	Procs int `json:"procs,omitempty"`
}

// procsCycle assigns a processor count to the k-th perturbed execution of a world without
// consuming tape (so worlds and schedules are the same as before this dimension existed).
var procsCycle = [...]int{16, 2, 0, 3, 16, 0, 4, 0}

// withProcs runs f with the processor count of spec visible to the code under test.
func withProcs(spec *ExecSpec, agg *core.Agg, f func()) {
	if spec.Procs <= 0 {
		f()
		return
	}
	// a seam, not the real thing: the instrumented copy reads runtime.GOMAXPROCS / NumCPU through
	// simrt.Procs; the worker's real setting (one thread for the hand-offs) is not touched
	simrt.SimProcs = spec.Procs
	defer func() { simrt.SimProcs = 0 }()
	if agg != nil {
		agg.Inc(fmt.Sprintf("env.gomaxprocs_%d", spec.Procs))
	}
	f()
}

type Case struct {
	World *world.World `json:"world"`
	Execs []ExecSpec   `json:"execs"`
}

type failure struct{ sig, detail string }

type execResult struct {
	out   *driver.Outcome
	st    *driver.ExecStats
	hash  uint64
	roots map[string]bool
}

func runExec(w *world.World, l *driver.Loaded, spec *ExecSpec, ch sched.Chooser) (*execResult, error) {
	ex := spec.Ex
	ex.Sched = spec.Sched
	var out *driver.Outcome
	var st *driver.ExecStats
	var err error
	if ex.Driver == "vet" {
		out, st, err = driver.RunVet(w, &ex, ch)
	} else {
		out, st, err = driver.RunChecker(l, &ex, ch)
	}
	if err != nil {
		return nil, err
	}
	h := core.NewHasher()
	h.Int(int(st.Sched.TraceHash))
	roots := map[string]bool{}
	for _, r := range w.OutcomePaths(ex.Roots) {
		roots[r] = true
	}
	paths := make([]string, 0, len(roots))
	for p := range roots {
		paths = append(paths, p)
	}
	sort.Strings(paths)
	for _, p := range paths {
		h.Str(p)
		h.Str(out.PkgString(p))
	}
	return &execResult{out, st, h.Sum(), roots}, nil
}

func firstDiff(a, b string) string {
	la, lb := strings.Split(a, "\n"), strings.Split(b, "\n")
	in := func(x string, l []string) bool {
		for _, y := range l {
			if x == y {
				return true
			}
		}
		return false
	}
	var sb strings.Builder
	n := 0
	for _, x := range la {
		if !in(x, lb) && n < 3 {
			fmt.Fprintf(&sb, "    only in the first : %s\n", clip(x, 400))
			n++
		}
	}
	n = 0
	for _, x := range lb {
		if !in(x, la) && n < 3 {
			fmt.Fprintf(&sb, "    only in the second: %s\n", clip(x, 400))
			n++
		}
	}
	if sb.Len() == 0 {
		sb.WriteString("    (same lines, different order or multiplicity)\n")
	}
	return sb.String()
}

func clip(s string, n int) string {
	if len(s) > n {
		return s[:n] + "…"
	}
	return s
}

// Execute runs all executions of a case and applies the oracles. choosers[i]
// drives execution i (the tape while generating, the recorded decisions when
// replaying); record receives the decisions consumed by execution i.
func Execute(c *Case, chooser func(i int) sched.Chooser, record func(i int, mark bool), agg *core.Agg) (*failure, uint64, error) {
	loads := map[string]*driver.Loaded{}
	load := func(seed uint64, roots []string) (*driver.Loaded, error) {
		sorted := append([]string(nil), roots...)
		sort.Strings(sorted)
		key := fmt.Sprintf("%d|%s", seed, strings.Join(sorted, ","))
		if l, ok := loads[key]; ok {
			return l, nil
		}
		l, err := driver.LoadFor(c.World, seed, roots) // only the roots and what they depend on is loaded
		if err == nil {
			loads[key] = l
		}
		return l, err
	}
	log := core.NewHasher()
	type ref struct {
		label string
		str   string
	}
	// reference outcome per (driver, package): the first execution that had it as a root
	refs := map[string]ref{}
	for i := range c.Execs {
		spec := &c.Execs[i]
		reps := spec.Repeat
		if reps < 1 {
			reps = 1
		}
		var first *execResult
		ownGoroutines := false
		for r := 0; r < reps; r++ {
			var ch sched.Chooser
			if r == 0 {
				record(i, true)
				ch = chooser(i)
			} else {
				// the identical decisions again
				ch = core.ReplayTape(c.Execs[i].Tape)
			}
			l, err := load(spec.Ex.ParseSeed, spec.Ex.Roots)
			if err != nil {
				return nil, 0, core.Infra("%v", err)
			}
			if spec.Ex.ParseSeed != 0 {
				agg.Inc("fault.permuted_parse_order")
			}
			if spec.Ex.StallFile != "" {
				agg.Inc("fault.stalled_read_armed")
			}
			var res *execResult
			fs0 := simrt.ForeignSeen()
			withProcs(spec, agg, func() { res, err = runExec(c.World, l, spec, ch) })
			if simrt.ForeignSeen() != fs0 {
				ownGoroutines = true // the code under test started goroutines of its own in this execution
			}
			if r == 0 {
				record(i, false)
			}
			if err != nil {
				return nil, 0, core.Infra("execution %s: %v", spec.Label, err)
			}
			agg.Inc("executions")
			agg.Inc("driver." + spec.Ex.Driver)
			agg.Inc("strategy." + strategyName(spec.Sched.Strategy))
			agg.Add("sched.steps", int64(res.st.Sched.Steps))
			agg.Add("sched.switches", int64(res.st.Sched.Switches))
			agg.Add("sched.preemptions", int64(res.st.Sched.Preemptions))
			agg.Add("actions", int64(res.st.Actions))
			agg.Add("fault.stalled_read_fired", int64(res.st.Stalls))
			if res.st.Sched.Preemptions > 0 {
				agg.Inc("executions_with_preemption")
				agg.Distinct("nontrivial", res.hash^c.World.Hash())
			} else {
				agg.Inc("baseline_executions")
			}
			if res.st.Sched.Overrun {
				agg.Note("a run exceeded the yield-point budget (2M): schedule decisions stopped there")
			}
			agg.Distinct("schedules", res.st.Sched.TraceHash)
			for k := range res.st.Sched.SitePairs {
				agg.Distinct("site_pairs", uint64(uint32(k[0]))<<32|uint64(uint32(k[1])))
				if k[0] > 0 && k[1] > 0 {
					agg.Inc("probe.switch_between_two_walks")
				}
			}
			for p, es := range res.out.Errors {
				for _, e := range es {
					if strings.Contains(e, "panic") {
						agg.Note("an analyzer action panicked in a simulated run (C10's business, recorded in the outcome): " + clip(p+": "+e, 200))
					}
				}
			}
			log.Int(int(res.hash))
			if r == 0 {
				first = res
			} else if res.hash != first.hash {
				// same world, same decisions, different result: not my PRNG
				for p := range res.roots {
					a, b := first.out.PkgString(p), res.out.PkgString(p)
					if a != b {
						return &failure{"run-to-run-nondeterminism",
							fmt.Sprintf("execution %q repeated with identical scheduler decisions gave a different outcome for package %s (repetition %d):\n%s", spec.Label, p, r, firstDiff(a, b))}, log.Sum(), nil
					}
				}
				if ownGoroutines {
					// goroutines of the code under test are real goroutines: how far the parent gets
					// before they end is not the scheduler's decision, so the *path* may differ between
					// repetitions although every outcome is equal - inconclusive, not a violation
					agg.Inc("inconclusive.path_differs_own_goroutines")
					continue
				}
				return &failure{"run-to-run-nondeterminism", fmt.Sprintf("execution %q repeated with identical decisions took a different path (event log differs, outcomes equal)", spec.Label)}, log.Sum(), nil
			}
		}
		// schedule / run-set / order independence, per driver
		paths := make([]string, 0, len(first.roots))
		for p := range first.roots {
			paths = append(paths, p)
		}
		sort.Strings(paths)
		for _, p := range paths {
			key := spec.Ex.Driver + "|" + p
			s := first.out.PkgString(p)
			if rf, ok := refs[key]; !ok {
				refs[key] = ref{spec.Label, s}
			} else {
				agg.Inc("outcome_comparisons")
				if rf.str != s {
					return &failure{"schedule-dependent-outcome",
						fmt.Sprintf("package %s: outcome differs between execution %q and execution %q of the same world and configuration (driver %s):\n%s", p, rf.label, spec.Label, spec.Ex.Driver, firstDiff(rf.str, s))}, log.Sum(), nil
				}
			}
		}
	}
	return nil, log.Sum(), nil
}

func strategyName(s int) string {
	return [...]string{"sequential", "random-walk", "pct", "round-robin", "rendezvous"}[s]
}

// ---------------------------------------------------------------- generation

func allRoots(w *world.World) []string {
	var r []string
	for _, p := range w.Pkgs {
		r = append(r, p.Path)
	}
	return r
}

func genSched(t *core.Tape, horizon int) sched.Config {
	c := sched.Config{Horizon: horizon}
	if t.Chance(1, 8) {
		// as many actions as possible inside one region at the same moment: the driver
		// seam (read a file, report, import / export a fact) or a random yield site
		c.Strategy = sched.Rendezvous
		c.Site = []int{-4, -4, -3, -1, -2, 1 + t.Draw(330)}[t.Draw(6)]
		return c
	}
	switch t.Draw(8) {
	case 0, 1, 2:
		c.Strategy = sched.RandomWalk
		c.MeanGap = []int{200, 20, 3}[t.Draw(3)]
	case 3, 4:
		c.Strategy = sched.PCT
		c.PCTDepth = t.Range(1, 3)
	case 5:
		c.Strategy = sched.RoundRobin
	case 6:
		c.Strategy = sched.RandomWalk
		c.MeanGap = 2000
	default:
		c.Strategy = sched.RandomWalk
		c.MeanGap = 50
	}
	if t.Chance(1, 5) {
		c.Stall = t.Range(1, 3)
	}
	return c
}

func genRoots(t *core.Tape, w *world.World) []string {
	all := allRoots(w)
	switch t.Draw(4) {
	case 0: // permuted order
		for i := len(all) - 1; i > 0; i-- {
			j := t.Draw(i + 1)
			all[i], all[j] = all[j], all[i]
		}
		return all
	case 1: // a random non-empty subset, permuted
		var sub []string
		for _, p := range all {
			if t.Chance(1, 2) {
				sub = append(sub, p)
			}
		}
		if len(sub) == 0 {
			sub = append(sub, all[t.Draw(len(all))])
		}
		for i := len(sub) - 1; i > 0; i-- {
			j := t.Draw(i + 1)
			sub[i], sub[j] = sub[j], sub[i]
		}
		return sub
	case 2: // a single package: everything else becomes a facts-only dependency or is absent
		return []string{all[t.Draw(len(all))]}
	}
	return all
}

func params(opt core.RunOpt) (schedules, repeat int) {
	schedules, repeat = 10, 3
	if opt.Tier == "thorough" {
		schedules, repeat = 40, 6
	}
	if opt.P("race") == "1" {
		schedules, repeat = 6, 1
	}
	return
}

func (e Engine) Run(t *core.Tape, opt core.RunOpt, agg *core.Agg) *core.Violation {
	c, f, h, err := e.run(t, opt, agg)
	return e.finish(c, f, h, err, agg)
}

func (e Engine) run(t *core.Tape, opt core.RunOpt, agg *core.Agg) (*Case, *failure, uint64, error) {
	w, _ := world.Generate(t, world.GenOpt{MinPkgs: 2, MaxPkgs: 7, Flat: true, ReadFaults: true, LineDirectives: true, DirExclude: true, MultiModule: true, StdImports: true, Bulk: true})
	k, rep := params(opt)
	slowDisk := t.Chance(1, 10) // per world: are there executions with a stalled read?
	c := &Case{World: w}
	c.Execs = append(c.Execs, ExecSpec{Label: "checker/sequential/all-roots", Ex: driver.Exec{Driver: "checker", Transport: "share", Roots: allRoots(w), Rerun: -1},
		Sched: sched.Config{Strategy: sched.Sequential}, Repeat: rep})
	// executions are generated lazily so that the horizon can use the baseline's step count
	marks := map[int]int{}
	horizon := 2000
	chooser := func(i int) sched.Chooser { return t }
	record := func(i int, start bool) {
		if start {
			marks[i] = t.Consumed()
		} else {
			c.Execs[i].Tape = t.Recorded()[marks[i]:]
		}
	}
	// generate the remaining executions up front (their parameters are draws, too)
	for j := 0; j < k; j++ {
		drv := "checker"
		if t.Chance(1, 4) {
			drv = "vet"
		}
		sc := genSched(t, horizon)
		roots := genRoots(t, w)
		spec := ExecSpec{Ex: driver.Exec{Driver: drv, Transport: "share", Roots: roots, Rerun: -1}, Sched: sc, Repeat: 1}
		if drv == "vet" {
			spec.Ex.Transport = "files"
		} else if t.Chance(1, 2) {
			// the standalone driver parses all files concurrently: position bases vary from run to run
			spec.Ex.ParseSeed = uint64(1 + t.Draw(1<<20))
		}
		if drv == "checker" && slowDisk && t.Chance(1, 3) {
			// a slow disk: the first read of one source file takes 130 ms in this execution
			p := &w.Pkgs[t.Draw(len(w.Pkgs))]
			spec.Ex.StallFile = driver.FileName(w, p, p.Files[t.Draw(len(p.Files))])
		}
		if j == 0 {
			spec.Repeat = rep // one preempting schedule is also repeated identically
		}
		spec.Procs = procsCycle[j%len(procsCycle)]
		spec.Label = fmt.Sprintf("%s/%s/%d-roots#%d", drv, strategyName(sc.Strategy), len(roots), j+1)
		c.Execs = append(c.Execs, spec)
	}
	f, h, err := Execute(c, chooser, record, agg)
	return c, f, h, err
}

func (e Engine) finish(c *Case, f *failure, h uint64, err error, agg *core.Agg) *core.Violation {
	if err != nil {
		// infrastructure trouble must never look like a violation
		panic(err)
	}
	agg.SetRunHash(h)
	if agg != nil {
		agg.Inc("worlds")
		agg.Add("world.packages", int64(len(c.World.Pkgs)))
		agg.Distinct("worlds", c.World.Hash())
		agg.Sample("case", 1, sampleOf(c))
	}
	if f == nil {
		return nil
	}
	raw, _ := json.Marshal(c)
	return &core.Violation{Property: "C11", Sig: f.sig, Detail: f.detail, Case: raw, EventHash: fmt.Sprintf("%016x", h)}
}

// sampleOf keeps evidence samples small: the world's shape, not its sources.
func sampleOf(c *Case) any {
	type ps struct {
		Path    string   `json:"path"`
		Imports []string `json:"imports"`
		Files   []string `json:"files"`
	}
	var pk []ps
	for _, p := range c.World.Pkgs {
		var fs []string
		for _, f := range p.Files {
			fs = append(fs, fmt.Sprintf("%s (%d bytes)", f.Name, len(f.Src)))
		}
		pk = append(pk, ps{p.Path, p.Imports, fs})
	}
	var ex []string
	for _, e := range c.Execs {
		ex = append(ex, fmt.Sprintf("%s roots=%v stall=%d repeat=%d decisions=%d", e.Label, e.Ex.Roots, e.Sched.Stall, e.Repeat, len(e.Tape)))
	}
	first := ""
	for _, f := range c.World.Pkgs[len(c.World.Pkgs)-1].Files {
		if f.Name == "use.go" {
			first = clip(f.Src, 1800)
		}
	}
	return map[string]any{"config": c.World.Cfg, "packages": pk, "executions": ex, "one_source_file": first}
}

func (e Engine) ReplayCase(raw json.RawMessage, opt core.RunOpt, agg *core.Agg) (*core.Violation, error) {
	var c Case
	if err := json.Unmarshal(raw, &c); err != nil {
		return nil, err
	}
	tapes := make([][]uint32, len(c.Execs))
	for i := range c.Execs {
		tapes[i] = c.Execs[i].Tape
	}
	f, h, err := Execute(&c, func(i int) sched.Chooser { return core.ReplayTape(tapes[i]) }, func(int, bool) {}, agg)
	if err != nil {
		return nil, err
	}
	return e.finish(&c, f, h, nil, agg), nil
}

func (e Engine) Materialise(t *core.Tape, opt core.RunOpt) json.RawMessage {
	// run once in this process to record the decisions; the violation itself
	// (a race) is only visible to the race build
	c, _, _, err := e.run(t, opt, nil)
	if err != nil {
		return nil
	}
	raw, _ := json.Marshal(c)
	return raw
}
