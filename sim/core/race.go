package core

import (
	"encoding/json"
	"fmt"
	"os"
	"path/filepath"
	"regexp"
	"sort"
	"strings"
	"time"
)

// RaceEnv makes a race-build worker die on the first report with a
// recognisable exit status.
func RaceEnv() []string { return []string{"GORACE=halt_on_error=1 exitcode=66"} }

const RaceExit = 66

var frameRe = regexp.MustCompile(`^  (\S+)\(`)
var locRe = regexp.MustCompile(`^      (\S+):(\d+)`)

// ParseRace normalises the first race report in a worker's stderr to a
// signature (the two access sites) and a readable detail.
func ParseRace(stderr string) (sig, detail string, ok bool) {
	i := strings.Index(stderr, "WARNING: DATA RACE")
	if i < 0 {
		return "", "", false
	}
	rep := stderr[i:]
	if j := strings.Index(rep[1:], "=================="); j > 0 {
		rep = rep[:j+1]
	}
	lines := strings.Split(rep, "\n")
	var sites []string
	cur := -1
	var stacks [][]string
	for k := 0; k < len(lines); k++ {
		ln := lines[k]
		switch {
		case strings.HasPrefix(ln, "Read at"), strings.HasPrefix(ln, "Write at"), strings.HasPrefix(ln, "Previous read at"), strings.HasPrefix(ln, "Previous write at"),
			strings.HasPrefix(ln, "Atomic"), strings.HasPrefix(ln, "Previous atomic"):
			stacks = append(stacks, nil)
			cur = len(stacks) - 1
		case strings.HasPrefix(ln, "Goroutine "):
			cur = -1
		default:
			if cur >= 0 {
				if m := frameRe.FindStringSubmatch(ln); m != nil {
					loc := ""
					if k+1 < len(lines) {
						if lm := locRe.FindStringSubmatch(lines[k+1]); lm != nil {
							loc = filepath.Base(lm[1]) + ":" + lm[2]
						}
					}
					stacks[cur] = append(stacks[cur], m[1]+"@"+loc)
				}
			}
		}
	}
	for _, st := range stacks {
		pick := ""
		for _, f := range st {
			if strings.Contains(f, "a14e/gogreement/") && !strings.Contains(f, "/simrt.") {
				pick = f
				break
			}
		}
		if pick == "" && len(st) > 0 {
			pick = st[0]
		}
		sites = append(sites, pick)
	}
	sort.Strings(sites)
	sig = "data-race:" + strings.Join(sites, "|")
	return sig, "the race detector, seeing only the driver's dependency edges, reports two unordered conflicting accesses:\n" + clipStr(rep, 6000), true
}

func clipStr(s string, n int) string {
	if len(s) <= n {
		return s
	}
	return s[:n] + "\n..."
}

// ExecResult is what `verifsim exec` prints.
type ExecResult struct {
	Violation *Violation `json:"violation"`
	Tape      []uint32   `json:"tape"`
}

// ExecSubprocess runs one tape (or one materialised case) in a fresh process
// of bin. A race-detector death comes back as a violation.
func ExecSubprocess(bin, prop string, opt RunOpt, tape []uint32, caseRaw json.RawMessage) (*Violation, error) {
	dir, err := os.MkdirTemp(ScratchDir(), "exec-")
	if err != nil {
		return nil, err
	}
	defer os.RemoveAll(dir)
	in := filepath.Join(dir, "in.json")
	b, _ := json.Marshal(map[string]any{"prop": prop, "opt": opt, "tape": tape, "case": caseRaw})
	if err := os.WriteFile(in, b, 0o644); err != nil {
		return nil, err
	}
	code, out := RunSelfSplit(bin, RaceEnv(), "exec", in)
	switch code {
	case 0:
		var r ExecResult
		if err := json.Unmarshal([]byte(out.Stdout), &r); err != nil {
			return nil, fmt.Errorf("exec: bad output: %v: %.300s", err, out.Stdout)
		}
		if r.Violation != nil && r.Violation.Tape == nil {
			r.Violation.Tape = r.Tape
		}
		return r.Violation, nil
	case RaceExit:
		sig, detail, ok := ParseRace(out.Stderr)
		if !ok {
			return nil, fmt.Errorf("exec: exit %d without a race report: %.500s", code, out.Stderr)
		}
		return &Violation{Property: prop, Sig: sig, Detail: detail, Tape: tape, Case: caseRaw, EventHash: fmt.Sprintf("%016x", HashString(sig))}, nil
	}
	return nil, fmt.Errorf("exec: exit %d: %.800s", code, out.Stderr)
}

// ExecMain is the body of `verifsim exec <file>`.
func ExecMain(path string) int {
	b, err := os.ReadFile(path)
	if err != nil {
		fmt.Fprintln(os.Stderr, err)
		return 2
	}
	var in struct {
		Prop string          `json:"prop"`
		Opt  RunOpt          `json:"opt"`
		Tape []uint32        `json:"tape"`
		Case json.RawMessage `json:"case"`
	}
	if err := json.Unmarshal(b, &in); err != nil {
		fmt.Fprintln(os.Stderr, err)
		return 2
	}
	e, err := Lookup(in.Prop)
	if err != nil {
		fmt.Fprintln(os.Stderr, err)
		return 2
	}
	var res ExecResult
	if len(in.Case) > 0 && string(in.Case) != "null" {
		v, err := e.ReplayCase(in.Case, in.Opt, nil)
		if err != nil {
			fmt.Fprintln(os.Stderr, err)
			return 2
		}
		res.Violation = v
	} else {
		t := ReplayTape(in.Tape)
		res.Violation = e.Run(t, in.Opt, nil)
		res.Tape = t.Recorded()
	}
	json.NewEncoder(os.Stdout).Encode(&res)
	return 0
}

// RaceDeath builds the OnWorkerDeath handler of a race leg: the dying worker
// is mapped to the run it was executing; the run's tape is regenerated from
// its seed (generation is a pure function of the seed).
func RaceDeath(e Engine, seed uint64) func(leg *Leg, worker, exitCode int, stderr string, lastRun int) (*Violation, error) {
	return func(leg *Leg, worker, exitCode int, stderr string, lastRun int) (*Violation, error) {
		if exitCode != RaceExit {
			return nil, nil
		}
		sig, detail, ok := ParseRace(stderr)
		if !ok {
			return nil, Infra("leg %s worker %d exited %d without a parsable race report:\n%s", leg.Name, worker, exitCode, tail(stderr, 3000))
		}
		rs := Mix(seed, uint64(lastRun))
		v := &Violation{Property: e.ID(), Sig: sig, Detail: detail, Leg: leg.Name, Tier: leg.Opt.Tier, Seed: seed, Run: lastRun, RunSeed: rs,
			EventHash: fmt.Sprintf("%016x", HashString(sig))}
		// confirm alone, in a fresh process, and pick up tape + case
		bin := leg.Bin
		full := fullTape(e, rs, leg.Opt)
		r, err := ExecSubprocess(bin, e.ID(), leg.Opt, full, nil)
		if err != nil {
			return nil, Infra("re-running run %d alone: %v", lastRun, err)
		}
		if r == nil || !strings.HasPrefix(r.Sig, "data-race:") {
			v.Detail += "\n(the report did not come back when run " + fmt.Sprint(lastRun) + " was executed alone in a fresh process)"
			v.Tape = full
			return v, nil
		}
		v.Sig, v.Detail, v.Tape = r.Sig, r.Detail, full
		return v, nil
	}
}

// fullTape regenerates the recorded tape of a run by executing it in this
// (non-race) process.
func fullTape(e Engine, runSeed uint64, opt RunOpt) []uint32 {
	t := NewTape(runSeed)
	e.Run(t, opt, nil)
	return t.Recorded()
}

// MinimiseSubprocess shrinks a tape whose violation only shows in another
// binary (the race build).
func MinimiseSubprocess(bin string, e Engine, v *Violation, opt RunOpt, maxExec int) *Violation {
	deadline := time.Now().Add(45 * time.Second)
	test := func(tp []uint32) bool {
		if time.Now().After(deadline) {
			return false
		}
		r, err := ExecSubprocess(bin, e.ID(), opt, tp, nil)
		return err == nil && r != nil && r.Sig == v.Sig
	}
	if !test(v.Tape) {
		v.Detail += "\n(minimiser: did not reproduce in a fresh process; reported unminimised)"
		return v
	}
	best, execs := Shrink(v.Tape, maxExec, test)
	// materialise the case of the minimised tape in this process
	t := ReplayTape(best)
	e.Run(t, opt, nil)
	out := *v
	out.Tape = t.Recorded()
	out.Minimised, out.MinExecs, out.OrigTape = true, execs, len(v.Tape)
	if cm, ok := e.(CaseMaterialiser); ok {
		out.Case = cm.Materialise(ReplayTape(best), opt)
	}
	return &out
}

// CaseMaterialiser is implemented by engines whose cases can be materialised
// without observing the violation in-process.
type CaseMaterialiser interface {
	Materialise(t *Tape, opt RunOpt) json.RawMessage
}
