package core

import (
	"encoding/json"
	"fmt"
	"os"
	"path/filepath"
	"regexp"
	"sort"
	"strconv"
	"strings"
	"time"
)

// RaceEnv makes a race-build worker die on the first report with a
// recognisable exit status.
func RaceEnv() []string { return []string{"GORACE=halt_on_error=1 exitcode=66"} }

const RaceExit = 66

var frameRe = regexp.MustCompile(`^  (\S+)\(`)
var locRe = regexp.MustCompile(`^      (\S+):(\d+)`)

// ParseRace normalises the first race report in a worker's stderr to a
// signature (the two access sites) and a readable detail.
func ParseRace(stderr string) (sig, detail string, ok bool) {
	i := strings.Index(stderr, "WARNING: DATA RACE")
	if i < 0 {
		return "", "", false
	}
	rep := stderr[i:]
	if j := strings.Index(rep[1:], "=================="); j > 0 {
		rep = rep[:j+1]
	}
	lines := strings.Split(rep, "\n")
	var sites []string
	cur := -1
	var stacks [][]string
	for k := 0; k < len(lines); k++ {
		ln := lines[k]
		switch {
		case strings.HasPrefix(ln, "Read at"), strings.HasPrefix(ln, "Write at"), strings.HasPrefix(ln, "Previous read at"), strings.HasPrefix(ln, "Previous write at"),
			strings.HasPrefix(ln, "Atomic"), strings.HasPrefix(ln, "Previous atomic"):
			stacks = append(stacks, nil)
			cur = len(stacks) - 1
		case strings.HasPrefix(ln, "Goroutine "):
			cur = -1
		default:
			if cur >= 0 {
				if m := frameRe.FindStringSubmatch(ln); m != nil {
					loc := ""
					if k+1 < len(lines) {
						if lm := locRe.FindStringSubmatch(lines[k+1]); lm != nil {
							loc = filepath.Base(lm[1]) + ":" + lm[2]
						}
					}
					stacks[cur] = append(stacks[cur], m[1]+"@"+loc)
				}
			}
		}
	}
	for _, st := range stacks {
		pick := ""
		for _, f := range st {
			if strings.Contains(f, "a14e/gogreement/") && !strings.Contains(f, "/simrt.") {
				pick = f
				break
			}
		}
		if pick == "" && len(st) > 0 {
			pick = st[0]
		}
		sites = append(sites, pick)
	}
	sort.Strings(sites)
	sig = "data-race:" + strings.Join(sites, "|")
	return sig, "the race detector, seeing only the driver's dependency edges, reports two unordered conflicting accesses:\n" + clipStr(rep, 6000), true
}

func clipStr(s string, n int) string {
	if len(s) <= n {
		return s
	}
	return s[:n] + "\n..."
}

// ExecResult is what `verifsim exec` prints.
type ExecResult struct {
	Violation *Violation `json:"violation"`
	Tape      []uint32   `json:"tape"`
}

// ExecSubprocess runs one tape (or one materialised case) in a fresh process
// of bin. A race-detector death comes back as a violation.
func ExecSubprocess(bin, prop string, opt RunOpt, tape []uint32, caseRaw json.RawMessage) (*Violation, error) {
	v, _, err := ExecSubprocessSeed(bin, prop, opt, tape, caseRaw, 0)
	return v, err
}

// ExecSubprocessSeed: with runSeed != 0 the child generates the run from that
// seed instead of replaying a tape. It also returns the tape the child
// recorded (nil if the child died). The child is killed after 90 s: code under
// test that starts goroutines of its own can wedge the cooperative schedule.
func ExecSubprocessSeed(bin, prop string, opt RunOpt, tape []uint32, caseRaw json.RawMessage, runSeed uint64) (*Violation, []uint32, error) {
	dir, err := os.MkdirTemp(ScratchDir(), "exec-")
	if err != nil {
		return nil, nil, err
	}
	defer os.RemoveAll(dir)
	in := filepath.Join(dir, "in.json")
	b, _ := json.Marshal(map[string]any{"prop": prop, "opt": opt, "tape": tape, "case": caseRaw, "run_seed": runSeed})
	if err := os.WriteFile(in, b, 0o644); err != nil {
		return nil, nil, err
	}
	code, out := RunSelfSplit(bin, append(RaceEnv(), "VERIFSIM_EXEC_TIMEOUT_S=90"), "exec", in)
	switch code {
	case 0:
		var r ExecResult
		if err := json.Unmarshal([]byte(out.Stdout), &r); err != nil {
			return nil, nil, fmt.Errorf("exec: bad output: %v: %.300s", err, out.Stdout)
		}
		if r.Violation != nil && r.Violation.Tape == nil {
			r.Violation.Tape = r.Tape
		}
		return r.Violation, r.Tape, nil
	case RaceExit:
		sig, detail, ok := ParseRace(out.Stderr)
		if !ok {
			return nil, nil, fmt.Errorf("exec: exit %d without a race report: %.500s", code, out.Stderr)
		}
		return &Violation{Property: prop, Sig: sig, Detail: detail, Tape: tape, Case: caseRaw, EventHash: fmt.Sprintf("%016x", HashString(sig))}, nil, nil
	}
	return nil, nil, fmt.Errorf("exec: exit %d: %.800s", code, out.Stderr)
}

// ExecMain is the body of `verifsim exec <file>`.
func ExecMain(path string) int {
	b, err := os.ReadFile(path)
	if err != nil {
		fmt.Fprintln(os.Stderr, err)
		return 2
	}
	var in struct {
		Prop    string          `json:"prop"`
		Opt     RunOpt          `json:"opt"`
		Tape    []uint32        `json:"tape"`
		Case    json.RawMessage `json:"case"`
		RunSeed uint64          `json:"run_seed"`
	}
	if v, err := strconv.Atoi(os.Getenv("VERIFSIM_EXEC_TIMEOUT_S")); err == nil && v > 0 {
		time.AfterFunc(time.Duration(v)*time.Second, func() {
			fmt.Fprintln(os.Stderr, "exec: WATCHDOG: did not finish in time")
			os.Exit(3)
		})
	}
	if err := json.Unmarshal(b, &in); err != nil {
		fmt.Fprintln(os.Stderr, err)
		return 2
	}
	e, err := Lookup(in.Prop)
	if err != nil {
		fmt.Fprintln(os.Stderr, err)
		return 2
	}
	var res ExecResult
	if len(in.Case) > 0 && string(in.Case) != "null" {
		v, err := e.ReplayCase(in.Case, in.Opt, nil)
		if err != nil {
			fmt.Fprintln(os.Stderr, err)
			return 2
		}
		res.Violation = v
	} else {
		t := ReplayTape(in.Tape)
		if in.RunSeed != 0 {
			t = NewTape(in.RunSeed)
		}
		res.Violation = e.Run(t, in.Opt, nil)
		res.Tape = t.Recorded()
	}
	json.NewEncoder(os.Stdout).Encode(&res)
	return 0
}

// RaceDeath builds the OnWorkerDeath handler of a race leg: the dying worker
// is mapped to the run it was executing; the run's tape is regenerated from
// its seed (generation is a pure function of the seed).
func RaceDeath(e Engine, seed uint64) func(leg *Leg, worker, exitCode int, stderr string, lastRun int) (*Violation, error) {
	handled := map[string]int{}
	return func(leg *Leg, worker, exitCode int, stderr string, lastRun int) (*Violation, error) {
		if exitCode != RaceExit {
			return nil, nil
		}
		sig, detail, ok := ParseRace(stderr)
		if !ok {
			return nil, Infra("leg %s worker %d exited %d without a parsable race report:\n%s", leg.Name, worker, exitCode, tail(stderr, 3000))
		}
		rs := Mix(seed, uint64(lastRun))
		v := &Violation{Property: e.ID(), Sig: sig, Detail: detail, Leg: leg.Name, Tier: leg.Opt.Tier, Seed: seed, Run: lastRun, RunSeed: rs,
			EventHash: fmt.Sprintf("%016x", HashString(sig))}
		// every worker of the leg may die on the same race: re-execute only the
		// first report of each class, the others are recorded by seed
		handled[sig]++
		if handled[sig] > 1 {
			v.Params = map[string]string{"regenerate_from_run_seed": "1"}
			for k, x := range leg.Opt.Params {
				v.Params[k] = x
			}
			return v, nil
		}
		// the run's tape: regenerated from its seed in a fresh process of the PLAIN
		// build (never in this process: code that starts goroutines of its own
		// could wedge the controller); if that process wedges, the violation is
		// reported with its seed only and replay regenerates the run from it
		_, full, terr := ExecSubprocessSeed("", e.ID(), leg.Opt, nil, nil, rs)
		if terr != nil || full == nil {
			v.Detail += "\n(the run could not be re-executed to completion in the plain build, probably because the code under test starts goroutines of its own; the replay file regenerates the run from its seed)"
			v.Params = map[string]string{"regenerate_from_run_seed": "1"}
			for k, x := range leg.Opt.Params {
				v.Params[k] = x
			}
			return v, nil
		}
		// confirm alone, in a fresh process of the race build
		r, err := ExecSubprocess(leg.Bin, e.ID(), leg.Opt, full, nil)
		if err != nil || r == nil || !strings.HasPrefix(r.Sig, "data-race:") {
			v.Detail += "\n(the report did not come back when run " + fmt.Sprint(lastRun) + " was executed alone in a fresh process)"
			v.Tape = full
			return v, nil
		}
		v.Sig, v.Detail, v.Tape = r.Sig, r.Detail, full
		return v, nil
	}
}

// MinimiseSubprocess shrinks a tape whose violation only shows in another
// binary (the race build).
func MinimiseSubprocess(bin string, e Engine, v *Violation, opt RunOpt, maxExec int) *Violation {
	if len(v.Tape) == 0 {
		return v // seed-only violation (see RaceDeath)
	}
	deadline := time.Now().Add(45 * time.Second)
	test := func(tp []uint32) bool {
		if time.Now().After(deadline) {
			return false
		}
		r, err := ExecSubprocess(bin, e.ID(), opt, tp, nil)
		return err == nil && r != nil && r.Sig == v.Sig
	}
	if !test(v.Tape) {
		v.Detail += "\n(minimiser: did not reproduce in a fresh process; reported unminimised)"
		return v
	}
	best, execs := Shrink(v.Tape, maxExec, test)
	// materialise the case of the minimised tape in this process
	t := ReplayTape(best)
	e.Run(t, opt, nil)
	out := *v
	out.Tape = t.Recorded()
	out.Minimised, out.MinExecs, out.OrigTape = true, execs, len(v.Tape)
	if cm, ok := e.(CaseMaterialiser); ok {
		out.Case = cm.Materialise(ReplayTape(best), opt)
	}
	return &out
}

// CaseMaterialiser is implemented by engines whose cases can be materialised
// without observing the violation in-process.
type CaseMaterialiser interface {
	Materialise(t *Tape, opt RunOpt) json.RawMessage
}
