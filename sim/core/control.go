package core

import (
	"bytes"
	"context"
	"encoding/json"
	"fmt"
	"os"
	"os/exec"
	"path/filepath"
	"runtime"
	"sort"
	"strconv"
	"strings"
	"sync"
	"time"
)

// WorkerOut is what one worker process prints on stdout when it finishes.
type WorkerOut struct {
	RunsDone   int          `json:"runs_done"`
	Agg        *Agg         `json:"agg"`
	Violations []*Violation `json:"violations"`
	NViolating int          `json:"n_violating"`
	Infra      string       `json:"infra,omitempty"`
}

// Leg is one batch of runs with one binary and one parameter set.
type Leg struct {
	Name    string
	Bin     string // worker binary; "" = this binary
	Runs    int
	Workers int
	Opt     RunOpt
	Env     []string
	// Offset shifts the run index space so that legs never share run seeds.
	Offset int
	// OnWorkerDeath lets an engine interpret an abnormal worker exit
	// (e.g. a race report under halt_on_error). It returns a violation, or
	// nil plus an error for infrastructure trouble.
	OnWorkerDeath func(leg *Leg, worker int, exitCode int, stderr string, lastRun int) (*Violation, error)
}

// WorkerMain is the body of `verifsim worker`.
func WorkerMain(e Engine, opt RunOpt, seed uint64, start, stride, count, offset int, deadline time.Time, progress string, hashFile string) {
	out := WorkerOut{Agg: NewAgg()}
	var hashes strings.Builder
	// watchdog: a run that hangs (a wedged schedule, an endless loop in the
	// code under test) must not hang the check. Wall clock, but not on any
	// decision path: it only ever kills the process, with exit status 3.
	limit := 180 * time.Second
	if v, err := strconv.Atoi(os.Getenv("VERIFSIM_WATCHDOG_S")); err == nil && v > 0 {
		limit = time.Duration(v) * time.Second
	}
	inFlight := -1
	wd := time.AfterFunc(limit, func() {
		fmt.Fprintf(os.Stderr, "WATCHDOG: run %d did not finish within %v\n", inFlight, limit)
		os.Exit(3)
	})
	defer wd.Stop()
	seen := map[string]bool{}
	for i := start; i < count; i += stride {
		if !deadline.IsZero() && time.Now().After(deadline) {
			out.Agg.Inc("budget_stops")
			break
		}
		idx := offset + i
		inFlight = idx
		wd.Reset(limit)
		if progress != "" {
			// which run is in flight: lets the controller attribute a dying worker
			os.WriteFile(progress, []byte(strconv.Itoa(idx)), 0o644)
		}
		rs := Mix(seed, uint64(idx))
		t := NewTape(rs)
		v := e.Run(t, opt, out.Agg)
		out.RunsDone++
		if hashFile != "" {
			fmt.Fprintf(&hashes, "%d %016x %d\n", idx, out.Agg.RunHash(), t.Consumed())
		}
		if v != nil {
			out.NViolating++
			if !seen[v.Sig] && len(out.Violations) < 4 {
				seen[v.Sig] = true
				v.Property = e.ID()
				v.Leg, v.Tier, v.Params, v.Seed, v.Run, v.RunSeed = opt.Leg, opt.Tier, opt.Params, seed, idx, rs
				v.Tape = t.Recorded()
				out.Violations = append(out.Violations, v)
			}
		}
	}
	if hashFile != "" {
		os.WriteFile(hashFile, []byte(hashes.String()), 0o644)
	}
	out.Agg.Pack()
	enc := json.NewEncoder(os.Stdout)
	if err := enc.Encode(&out); err != nil {
		fmt.Fprintln(os.Stderr, "worker: encode:", err)
		os.Exit(2)
	}
}

// RunLeg fans a leg out over worker processes and merges what they report.
func RunLeg(propID string, seed uint64, leg *Leg, deadline time.Time, total *Agg) (viol []*Violation, nviolating int, err error) {
	bin := leg.Bin
	if bin == "" {
		bin, _ = os.Executable()
	}
	w := leg.Workers
	if w <= 0 {
		w = runtime.NumCPU()
	}
	if w > leg.Runs {
		w = leg.Runs
	}
	if w < 1 {
		w = 1
	}
	params, _ := json.Marshal(leg.Opt)
	tmp, terr := os.MkdirTemp(ScratchDir(), "legprog-")
	if terr != nil {
		return nil, 0, Infra("mkdtemp: %v", terr)
	}
	defer os.RemoveAll(tmp)
	type res struct {
		out    WorkerOut
		code   int
		stderr string
		err    error
		idx    int
	}
	results := make([]res, w)
	var wg sync.WaitGroup
	for k := 0; k < w; k++ {
		wg.Add(1)
		go func(k int) {
			defer wg.Done()
			prog := filepath.Join(tmp, fmt.Sprintf("w%d", k))
			args := []string{"worker", "--prop", propID, "--opt", string(params),
				"--seed", strconv.FormatUint(seed, 10), "--start", strconv.Itoa(k), "--stride", strconv.Itoa(w),
				"--count", strconv.Itoa(leg.Runs), "--offset", strconv.Itoa(leg.Offset), "--progress", prog}
			if !deadline.IsZero() {
				args = append(args, "--deadline", strconv.FormatInt(deadline.Unix(), 10))
			}
			ctx, cancel := context.WithTimeout(context.Background(), legTimeout(deadline))
			defer cancel()
			cmd := exec.CommandContext(ctx, bin, args...)
			cmd.Env = append(os.Environ(), leg.Env...)
			var so, se bytes.Buffer
			cmd.Stdout, cmd.Stderr = &so, &se
			e := cmd.Run()
			r := res{idx: k, stderr: se.String()}
			if e != nil {
				r.err = e
				if ee, ok := e.(*exec.ExitError); ok {
					r.code = ee.ExitCode()
				} else {
					r.code = -1
				}
				if b, e2 := os.ReadFile(prog); e2 == nil {
					r.out.RunsDone, _ = strconv.Atoi(string(b))
				}
			} else if e := json.Unmarshal(so.Bytes(), &r.out); e != nil {
				r.err = fmt.Errorf("bad worker output: %v (%.200s)", e, so.String())
				r.code = -1
			}
			results[k] = r
		}(k)
	}
	wg.Wait()
	for _, r := range results {
		if r.err != nil {
			if leg.OnWorkerDeath != nil && r.code > 0 {
				v, e := leg.OnWorkerDeath(leg, r.idx, r.code, r.stderr, r.out.RunsDone)
				if e != nil {
					return nil, 0, e
				}
				if v != nil && strings.HasPrefix(v.Sig, "NOTE:") {
					total.Note(v.Detail)
					total.Inc("worker_deaths_reported_as_note")
					continue
				}
				if v != nil {
					viol = append(viol, v)
					nviolating++
					continue
				}
			}
			return nil, 0, Infra("leg %s worker %d failed (exit %d): %v\n%s", leg.Name, r.idx, r.code, r.err, tail(r.stderr, 4000))
		}
		if r.out.Infra != "" {
			return nil, 0, Infra("leg %s worker %d: %s", leg.Name, r.idx, r.out.Infra)
		}
		total.Merge(r.out.Agg, 6)
		total.Add("runs_done", int64(r.out.RunsDone))
		total.Add("leg."+leg.Name+".runs", int64(r.out.RunsDone))
		nviolating += r.out.NViolating
		viol = append(viol, r.out.Violations...)
	}
	sort.SliceStable(viol, func(i, j int) bool { return viol[i].Run < viol[j].Run })
	return viol, nviolating, nil
}

// legTimeout: hard upper bound for one worker process (the search budget plus
// grace); the per-run watchdog inside the worker normally fires long before.
func legTimeout(deadline time.Time) time.Duration {
	if deadline.IsZero() {
		return 2 * time.Hour
	}
	d := time.Until(deadline) + 15*time.Minute
	if d < 20*time.Minute {
		d = 20 * time.Minute
	}
	return d
}

func tail(s string, n int) string {
	if len(s) <= n {
		return s
	}
	return "..." + s[len(s)-n:]
}

// ScratchDir is where transient files go: outside /repo and /verif.
func ScratchDir() string {
	d := os.Getenv("VERIF_SCRATCH")
	if d == "" {
		d = "/var/tmp"
	}
	return d
}
