package core

import (
	"encoding/base64"
	"encoding/binary"
	"encoding/json"
	"sort"
)

// Agg accumulates what a batch of runs covered. Every number that ends up in
// an evidence file is counted here, on the run that produced it.
type Agg struct {
	Counters map[string]int64               `json:"counters"`
	sets     map[string]map[uint64]struct{} // distinct-hash sets
	Sets     map[string]string              `json:"sets"` // wire form (base64 of LE uint64s)
	Samples  map[string][]json.RawMessage   `json:"samples"`
	Notes    []string                       `json:"notes"`
	runHash  uint64
}

// SetRunHash records the event-log hash of the run just executed (used by the
// determinism self-test: same seed => same hash, in any process).
func (a *Agg) SetRunHash(h uint64) {
	if a != nil {
		a.runHash = h
	}
}
func (a *Agg) RunHash() uint64 { return a.runHash }

func NewAgg() *Agg {
	return &Agg{Counters: map[string]int64{}, sets: map[string]map[uint64]struct{}{}, Samples: map[string][]json.RawMessage{}}
}

func (a *Agg) Inc(k string) { a.Add(k, 1) }
func (a *Agg) Add(k string, n int64) {
	if a == nil {
		return
	}
	a.Counters[k] += n
}
func (a *Agg) Distinct(set string, h uint64) {
	if a == nil {
		return
	}
	m := a.sets[set]
	if m == nil {
		m = map[uint64]struct{}{}
		a.sets[set] = m
	}
	m[h] = struct{}{}
}
func (a *Agg) DistinctCount(set string) int { return len(a.sets[set]) }

// Sample keeps at most max written-out cases per kind.
func (a *Agg) Sample(kind string, max int, v any) {
	if a == nil || len(a.Samples[kind]) >= max {
		return
	}
	b, err := json.Marshal(v)
	if err == nil {
		a.Samples[kind] = append(a.Samples[kind], b)
	}
}
func (a *Agg) Note(s string) {
	if a == nil || len(a.Notes) >= 50 {
		return
	}
	for _, n := range a.Notes {
		if n == s {
			return
		}
	}
	a.Notes = append(a.Notes, s)
}

func (a *Agg) Pack() {
	a.Sets = map[string]string{}
	for k, m := range a.sets {
		buf := make([]byte, 0, 8*len(m))
		keys := make([]uint64, 0, len(m))
		for h := range m {
			keys = append(keys, h)
		}
		sort.Slice(keys, func(i, j int) bool { return keys[i] < keys[j] })
		for _, h := range keys {
			buf = binary.LittleEndian.AppendUint64(buf, h)
		}
		a.Sets[k] = base64.StdEncoding.EncodeToString(buf)
	}
}

func (a *Agg) unpack() {
	if a.sets == nil {
		a.sets = map[string]map[uint64]struct{}{}
	}
	for k, s := range a.Sets {
		b, err := base64.StdEncoding.DecodeString(s)
		if err != nil {
			continue
		}
		m := a.sets[k]
		if m == nil {
			m = map[uint64]struct{}{}
			a.sets[k] = m
		}
		for i := 0; i+8 <= len(b); i += 8 {
			m[binary.LittleEndian.Uint64(b[i:])] = struct{}{}
		}
	}
	a.Sets = nil
}

// Merge folds another (wire-form) aggregate into a.
func (a *Agg) Merge(b *Agg, maxSamples int) {
	b.unpack()
	for k, v := range b.Counters {
		a.Counters[k] += v
	}
	for k, m := range b.sets {
		dst := a.sets[k]
		if dst == nil {
			dst = map[uint64]struct{}{}
			a.sets[k] = dst
		}
		for h := range m {
			dst[h] = struct{}{}
		}
	}
	for k, s := range b.Samples {
		for _, x := range s {
			if len(a.Samples[k]) < maxSamples {
				a.Samples[k] = append(a.Samples[k], x)
			}
		}
	}
	for _, n := range b.Notes {
		a.Note(n)
	}
}

// SortedCounters returns counters whose key starts with prefix, prefix removed.
func (a *Agg) WithPrefix(prefix string) map[string]int64 {
	out := map[string]int64{}
	for k, v := range a.Counters {
		if len(k) > len(prefix) && k[:len(prefix)] == prefix {
			out[k[len(prefix):]] = v
		}
	}
	return out
}
