package core

// Shrink minimises a failing choice tape. test must return true iff the tape
// still produces a violation of the same class. The passes are the usual
// ones for tape-based shrinking: cut the tail, delete chunks, zero chunks,
// lower single values. Bounded by maxExec executions of test.
func Shrink(tape []uint32, maxExec int, test func([]uint32) bool) (best []uint32, execs int) {
	best = append([]uint32(nil), tape...)
	try := func(c []uint32) bool {
		if execs >= maxExec {
			return false
		}
		execs++
		if test(c) {
			best = append([]uint32(nil), c...)
			return true
		}
		return false
	}
	// strip trailing zeros: an exhausted tape answers 0 anyway
	trim := func() {
		n := len(best)
		for n > 0 && best[n-1] == 0 {
			n--
		}
		best = best[:n]
	}
	trim()
	for round := 0; round < 6 && execs < maxExec; round++ {
		before := len(best)
		sumBefore := sum(best)
		// 1. truncate
		for cut := len(best) / 2; cut >= 1; cut /= 2 {
			for len(best) > cut && try(best[:len(best)-cut]) {
			}
		}
		// 2. delete chunks
		for size := 16; size >= 1; size /= 2 {
			for i := len(best) - size; i >= 0; i -= size {
				if i+size > len(best) {
					continue
				}
				c := append(append([]uint32(nil), best[:i]...), best[i+size:]...)
				try(c)
			}
		}
		// 3. zero chunks
		for size := 8; size >= 1; size /= 2 {
			for i := 0; i+size <= len(best); i += size {
				allZero := true
				for _, v := range best[i : i+size] {
					if v != 0 {
						allZero = false
					}
				}
				if allZero {
					continue
				}
				c := append([]uint32(nil), best...)
				for j := i; j < i+size; j++ {
					c[j] = 0
				}
				try(c)
			}
		}
		// 4. lower single values: halve, then decrement
		for i := 0; i < len(best) && execs < maxExec; i++ {
			for best[i] > 0 {
				c := append([]uint32(nil), best...)
				c[i] = best[i] / 2
				if !try(c) {
					break
				}
			}
			if best[i] > 0 {
				c := append([]uint32(nil), best...)
				c[i] = best[i] - 1
				try(c)
			}
		}
		trim()
		if len(best) == before && sum(best) == sumBefore {
			break
		}
	}
	return best, execs
}

func sum(a []uint32) (s uint64) {
	for _, v := range a {
		s += uint64(v)
	}
	return
}
