// Package core holds the pieces every engine shares: the single PRNG and its
// choice tape, the generic tape minimiser, worker fan-out, evidence and replay
// file plumbing. Nothing in here reads a clock on a decision path.
package core

import (
	"encoding/base64"
	"encoding/binary"
	"encoding/json"
	"hash/fnv"
	"unicode/utf8"
)

// Rng is SplitMix64. One Rng, seeded from one integer, decides a whole run.
type Rng struct{ s uint64 }

func NewRng(seed uint64) *Rng { return &Rng{s: seed} }

//go:norace
func (r *Rng) Next() uint64 {
	r.s += 0x9E3779B97F4A7C15
	z := r.s
	z = (z ^ (z >> 30)) * 0xBF58476D1CE4E5B9
	z = (z ^ (z >> 27)) * 0x94D049BB133111EB
	return z ^ (z >> 31)
}

// Mix derives the seed of run i (and sub-streams) from the master seed.
func Mix(seed uint64, i uint64) uint64 {
	r := Rng{s: seed ^ (i+1)*0xD6E8FEB86659FD93}
	r.Next()
	return r.Next()
}

// Tape is the choice tape: every random decision of a run is one Draw, and
// every Draw is recorded. In replay mode the draws come from a recorded (and
// possibly shrunk) tape; an exhausted tape answers 0, which every generator
// treats as its simplest choice.
type Tape struct {
	rng *Rng
	in  []uint32
	pos int
	Out []uint32
}

func NewTape(seed uint64) *Tape    { return &Tape{rng: NewRng(seed)} }
func ReplayTape(in []uint32) *Tape { return &Tape{in: in} }
func (t *Tape) Replaying() bool    { return t.rng == nil }
func (t *Tape) Consumed() int      { return len(t.Out) }
func (t *Tape) Recorded() []uint32 { return append([]uint32(nil), t.Out...) }

// Draw returns a value in [0,n). n<=1 yields 0 but is still recorded so that
// tapes stay aligned when bounds change during shrinking.
//
//go:norace
func (t *Tape) Draw(n int) int {
	var v uint32
	if t.rng != nil {
		if n > 1 {
			v = uint32(t.rng.Next() % uint64(n))
		}
	} else if t.pos < len(t.in) {
		v = t.in[t.pos]
		if n > 1 {
			v %= uint32(n)
		} else {
			v = 0
		}
	}
	t.pos++
	t.Out = append(t.Out, v)
	return int(v)
}

// Range returns a value in [lo,hi].
//
//go:norace
func (t *Tape) Range(lo, hi int) int {
	if hi <= lo {
		t.Draw(1)
		return lo
	}
	return lo + t.Draw(hi-lo+1)
}

// Chance is true with probability num/den. 0 on the tape means "no".
//
//go:norace
func (t *Tape) Chance(num, den int) bool {
	return t.Draw(den) >= den-num
}

// Hasher is an order-sensitive 64-bit event-log hash (FNV-1a over records).
type Hasher struct{ h uint64 }

func NewHasher() *Hasher { return &Hasher{h: 14695981039346656037} }

func (h *Hasher) Bytes(b []byte) {
	for _, c := range b {
		h.h ^= uint64(c)
		h.h *= 1099511628211
	}
	h.h ^= 0xff
	h.h *= 1099511628211
}
func (h *Hasher) Str(s string) { h.Bytes([]byte(s)) }
func (h *Hasher) Int(v int) {
	var b [8]byte
	binary.LittleEndian.PutUint64(b[:], uint64(int64(v)))
	h.Bytes(b[:])
}
func (h *Hasher) Sum() uint64 { return h.h }

func HashString(s string) uint64 {
	f := fnv.New64a()
	f.Write([]byte(s))
	return f.Sum64()
}

// Text is file content inside a materialised case. It marshals as a plain
// JSON string when it is valid UTF-8 and as {"b64": ...} otherwise, so that a
// replay file reproduces the bytes exactly (encoding/json would silently
// replace invalid sequences).
type Text string

func (t Text) MarshalJSON() ([]byte, error) {
	if utf8.ValidString(string(t)) {
		return json.Marshal(string(t))
	}
	return json.Marshal(map[string]string{"b64": base64.StdEncoding.EncodeToString([]byte(t))})
}

func (t *Text) UnmarshalJSON(b []byte) error {
	var s string
	if err := json.Unmarshal(b, &s); err == nil {
		*t = Text(s)
		return nil
	}
	var m map[string]string
	if err := json.Unmarshal(b, &m); err != nil {
		return err
	}
	raw, err := base64.StdEncoding.DecodeString(m["b64"])
	if err != nil {
		return err
	}
	*t = Text(raw)
	return nil
}
