package core

import (
	"encoding/json"
	"fmt"
	"os"
	"os/exec"
	"path/filepath"
	"sort"
	"strings"
	"time"
)

// IsRaceBuild is set by main from sched.RaceBuild.
var IsRaceBuild bool

func VerifRoot() string {
	if d := os.Getenv("VERIF_ROOT"); d != "" {
		return d
	}
	return "/verif"
}

// KnownFindings is /verif/known_findings.json: committed, never written at run time.
type KnownFindings struct {
	Known []struct {
		Property  string `json:"property"`
		Signature string `json:"signature"`
		What      string `json:"what"`
	} `json:"known"`
	Fixed []string `json:"fixed"`
}

func LoadKnown() (*KnownFindings, error) {
	var k KnownFindings
	b, err := os.ReadFile(filepath.Join(VerifRoot(), "known_findings.json"))
	if err != nil {
		if os.IsNotExist(err) {
			return &k, nil
		}
		return nil, err
	}
	if err := json.Unmarshal(b, &k); err != nil {
		return nil, err
	}
	return &k, nil
}

// CheckSpec describes one invocation of a property check.
type CheckSpec struct {
	Engine  Engine
	Tier    string
	Seed    uint64
	Legs    []*Leg
	Budget  time.Duration // wall-clock cap for the whole search; 0 = none
	MaxExec int           // minimiser bound
	// Minimise overrides the generic in-process tape minimiser.
	Minimise func(v *Violation, opt RunOpt) *Violation
	// Coverage builds the coverage object of the evidence file from the merged aggregate.
	Coverage    func(a *Agg) map[string]any
	Assumptions []string
	// Post runs after all legs (e.g. validation legs implemented in the controller).
	Post func(a *Agg) ([]*Violation, error)
}

// RunCheck is the body of `verifsim run`. It returns the process exit status.
func RunCheck(s *CheckSpec) int {
	t0 := time.Now()
	id := s.Engine.ID()
	fmt.Printf("verifsim: property=%s tier=%s VERIF_SEED=%d\n", id, s.Tier, s.Seed)
	var deadline time.Time
	if s.Budget > 0 {
		deadline = t0.Add(s.Budget)
	}
	total := NewAgg()
	var all []*Violation
	nviol := 0
	for _, leg := range s.Legs {
		lt := time.Now()
		v, n, err := RunLeg(id, s.Seed, leg, deadline, total)
		if err != nil {
			if len(all) > 0 {
				// an earlier leg already found violations: report those; the trouble in
				// this leg (e.g. the code under test spawns goroutines of its own and
				// wedges the cooperative schedule) must not hide them
				fmt.Printf("NOTE: leg %s ended with infrastructure trouble after an earlier leg had found violations; reporting those (%.300s)\n", leg.Name, err.Error())
				break
			}
			fmt.Fprintf(os.Stderr, "verifsim: INFRASTRUCTURE: %v\n", err)
			return 2
		}
		fmt.Printf("verifsim: leg %-14s runs=%d violating_runs=%d wall=%.1fs\n", leg.Name, total.Counters["leg."+leg.Name+".runs"], n, time.Since(lt).Seconds())
		for _, x := range v {
			if x.Leg == "" {
				x.Leg = leg.Name
			}
		}
		all = append(all, v...)
		nviol += n
	}
	if s.Post != nil && len(all) > 0 {
		fmt.Printf("verifsim: validation legs skipped: the simulated legs already found violations\n")
	}
	if s.Post != nil && len(all) == 0 {
		v, err := s.Post(total)
		if err != nil {
			fmt.Fprintf(os.Stderr, "verifsim: INFRASTRUCTURE: %v\n", err)
			return 2
		}
		all = append(all, v...)
		nviol += len(v)
	}
	for _, n := range total.Notes {
		fmt.Printf("NOTE: %s\n", n)
	}

	// one representative per violation class
	bySig := map[string]*Violation{}
	var sigs []string
	for _, v := range all {
		if _, ok := bySig[v.Sig]; !ok {
			bySig[v.Sig] = v
			sigs = append(sigs, v.Sig)
		}
	}
	sort.Strings(sigs)
	known, err := LoadKnown()
	if err != nil {
		fmt.Fprintf(os.Stderr, "verifsim: INFRASTRUCTURE: known_findings.json: %v\n", err)
		return 2
	}
	unknown := 0
	var lines []string
	for i, sig := range sigs {
		v := bySig[sig]
		isKnown := false
		for _, k := range known.Known {
			if k.Property == id && k.Signature == sig {
				lines = append(lines, fmt.Sprintf("KNOWN-FINDING: property=%s %s", id, k.What))
				isKnown = true
			}
		}
		if isKnown {
			continue
		}
		unknown++
		if i < 2 {
			legOpt := RunOpt{Tier: s.Tier, Leg: v.Leg}
			for _, l := range s.Legs {
				if l.Name == v.Leg {
					legOpt = l.Opt
				}
			}
			if len(v.Tape) > 0 {
				if s.Minimise != nil {
					v = s.Minimise(v, legOpt)
				} else {
					v = MinimiseInProcess(s.Engine, v, legOpt, s.MaxExec)
				}
			}
		}
		path, err := WriteReplay(v)
		if err != nil {
			fmt.Fprintf(os.Stderr, "verifsim: INFRASTRUCTURE: writing replay: %v\n", err)
			return 2
		}
		fmt.Printf("violation: %s\n  %s\n", v.Sig, strings.ReplaceAll(v.Detail, "\n", "\n  "))
		lines = append(lines, fmt.Sprintf("VIOLATION property=%s replay=%s", id, path))
	}

	cov := map[string]any{}
	if s.Coverage != nil {
		cov = s.Coverage(total)
	}
	wall := time.Since(t0).Seconds()
	runs := total.Counters["runs_done"]
	cov["simulated_runs"] = runs
	cov["run_seeds"] = fmt.Sprintf("%d run seeds derived from VERIF_SEED=%d by SplitMix64 (one per run; every choice of a run is a draw from its tape)", runs, s.Seed)
	if wall > 0 {
		cov["simulated_runs_per_hour"] = int64(float64(runs) / wall * 3600)
		if ev, ok := cov["evaluations"].(int64); ok {
			cov["executions_per_hour"] = int64(float64(ev) / wall * 3600)
		}
	}
	if len(total.Notes) > 0 {
		cov["notes"] = total.Notes
	}
	ev := map[string]any{
		"property_id": id,
		"tier":        s.Tier,
		"seed":        s.Seed,
		"level":       "exploration",
		"coverage":    cov,
		"assumptions": s.Assumptions,
		"wall_s":      round1(time.Since(t0).Seconds()),
		"violations":  unknown,
	}
	if err := WriteEvidence(id, ev); err != nil {
		fmt.Fprintf(os.Stderr, "verifsim: INFRASTRUCTURE: writing evidence: %v\n", err)
		return 2
	}
	for _, l := range lines {
		fmt.Println(l)
	}
	fmt.Printf("verifsim: property=%s runs=%d violating_runs=%d classes=%d unknown_classes=%d wall=%.1fs\n",
		id, total.Counters["runs_done"], nviol, len(sigs), unknown, time.Since(t0).Seconds())
	if unknown > 0 {
		return 1
	}
	return 0
}

func round1(f float64) float64 { return float64(int64(f*10+0.5)) / 10 }

// MinimiseInProcess shrinks the tape with the engine running in this process.
func MinimiseInProcess(e Engine, v *Violation, opt RunOpt, maxExec int) *Violation {
	if maxExec <= 0 {
		maxExec = 1500
	}
	deadline := time.Now().Add(45 * time.Second)
	test := func(tp []uint32) bool {
		if time.Now().After(deadline) {
			return false
		}
		r := e.Run(ReplayTape(tp), opt, nil)
		return r != nil && r.Sig == v.Sig
	}
	if !test(v.Tape) {
		// not reproducible in this process (e.g. needs the race build): keep as is
		v.Detail += "\n(minimiser: original tape did not reproduce in the controller process; reported unminimised)"
		return v
	}
	best, execs := Shrink(v.Tape, maxExec, test)
	t := ReplayTape(best)
	r := e.Run(t, opt, nil)
	if r == nil || r.Sig != v.Sig {
		return v
	}
	r.Property, r.Leg, r.Tier, r.Seed, r.Run, r.RunSeed = v.Property, v.Leg, v.Tier, v.Seed, v.Run, v.RunSeed
	r.Tape = t.Recorded()
	r.Minimised, r.MinExecs, r.OrigTape = true, execs, len(v.Tape)
	if cs, ok := e.(CaseSimplifier); ok {
		r = cs.SimplifyCase(r, opt)
	}
	return r
}

// CaseSimplifier is an optional structured pass over the materialised case.
type CaseSimplifier interface {
	SimplifyCase(v *Violation, opt RunOpt) *Violation
}

func WriteReplay(v *Violation) (string, error) {
	dir := filepath.Join(VerifRoot(), "replays", v.Property)
	if err := os.MkdirAll(dir, 0o755); err != nil {
		return "", err
	}
	name := fmt.Sprintf("%d-%d-%s.json", v.Seed, v.Run, sanitize(v.Sig))
	path := filepath.Join(dir, name)
	b, err := json.MarshalIndent(v, "", " ")
	if err != nil {
		return "", err
	}
	return path, os.WriteFile(path, append(b, '\n'), 0o644)
}

func sanitize(s string) string {
	var b strings.Builder
	for _, c := range s {
		switch {
		case c >= 'a' && c <= 'z', c >= 'A' && c <= 'Z', c >= '0' && c <= '9', c == '-', c == '_':
			b.WriteRune(c)
		default:
			b.WriteByte('_')
		}
		if b.Len() >= 60 {
			break
		}
	}
	return b.String()
}

func WriteEvidence(id string, ev map[string]any) error {
	dir := filepath.Join(VerifRoot(), "evidence")
	if err := os.MkdirAll(dir, 0o755); err != nil {
		return err
	}
	b, err := json.MarshalIndent(ev, "", " ")
	if err != nil {
		return err
	}
	return os.WriteFile(filepath.Join(dir, id+".json"), append(b, '\n'), 0o644)
}

// ReplayMain is the body of `verifsim replay <file>`: re-execute the
// materialised case in this fresh process; exit 1 iff the same violation
// class (and the same event-log hash) comes back.
func ReplayMain(path string) int {
	b, err := os.ReadFile(path)
	if err != nil {
		fmt.Fprintln(os.Stderr, "replay:", err)
		return 2
	}
	var v Violation
	if err := json.Unmarshal(b, &v); err != nil {
		fmt.Fprintln(os.Stderr, "replay:", err)
		return 2
	}
	e, err := Lookup(v.Property)
	if err != nil {
		fmt.Fprintln(os.Stderr, "replay:", err)
		return 2
	}
	opt := RunOpt{Tier: v.Tier, Leg: v.Leg, Params: v.Params}
	var r *Violation
	if strings.Contains(v.Leg, "race") {
		if !IsRaceBuild {
			fmt.Fprintln(os.Stderr, "replay: INFRASTRUCTURE: this replay file needs the race build of verifsim")
			return 2
		}
		// the race detector kills the process that sees the race: run the case in a child
		if v.Params["regenerate_from_run_seed"] == "1" {
			r, _, err = ExecSubprocessSeed("", v.Property, opt, nil, nil, v.RunSeed)
		} else {
			r, err = ExecSubprocess("", v.Property, opt, nil, v.Case)
		}
	} else {
		r, err = e.ReplayCase(v.Case, opt, nil)
	}
	if err != nil {
		fmt.Fprintln(os.Stderr, "replay: INFRASTRUCTURE:", err)
		return 2
	}
	if r == nil {
		fmt.Printf("replay: no violation reproduced (recorded class %q)\n", v.Sig)
		return 0
	}
	fmt.Printf("replay: class=%q event_hash=%s (recorded class=%q event_hash=%s)\n  %s\n", r.Sig, r.EventHash, v.Sig, v.EventHash, strings.ReplaceAll(r.Detail, "\n", "\n  "))
	if r.Sig == v.Sig && r.EventHash == v.EventHash {
		fmt.Printf("VIOLATION property=%s replay=%s\n", v.Property, path)
		return 1
	}
	if r.Sig == v.Sig {
		fmt.Printf("replay: same class but different event log: NOT an exact reproduction\n")
		fmt.Printf("VIOLATION property=%s replay=%s\n", v.Property, path)
		return 1
	}
	fmt.Printf("replay: a different violation class came back\n")
	fmt.Printf("VIOLATION property=%s replay=%s\n", v.Property, path)
	return 1
}

type SplitOut struct{ Stdout, Stderr string }

// RunSelfSplit is RunSelf with stdout and stderr kept apart.
func RunSelfSplit(bin string, env []string, args ...string) (int, SplitOut) {
	if bin == "" {
		bin, _ = os.Executable()
	}
	cmd := exec.Command(bin, args...)
	cmd.Env = append(os.Environ(), env...)
	var so, se strings.Builder
	cmd.Stdout, cmd.Stderr = &so, &se
	err := cmd.Run()
	code := 0
	if err != nil {
		code = -1
		if ee, ok := err.(*exec.ExitError); ok {
			code = ee.ExitCode()
		}
	}
	return code, SplitOut{so.String(), se.String()}
}

// RunSelf runs this binary (or bin) with args, returning exit code and output.
func RunSelf(bin string, env []string, args ...string) (int, string) {
	if bin == "" {
		bin, _ = os.Executable()
	}
	cmd := exec.Command(bin, args...)
	cmd.Env = append(os.Environ(), env...)
	out, err := cmd.CombinedOutput()
	if err != nil {
		if ee, ok := err.(*exec.ExitError); ok {
			return ee.ExitCode(), string(out)
		}
		return -1, string(out) + err.Error()
	}
	return 0, string(out)
}
