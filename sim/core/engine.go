package core

import (
	"encoding/json"
	"fmt"
)

// Violation is one failed oracle on one run.
type Violation struct {
	Property  string            `json:"property"`
	Sig       string            `json:"signature"` // violation class; stable under minimisation
	Detail    string            `json:"detail"`
	Leg       string            `json:"leg"`
	Tier      string            `json:"tier"`
	Params    map[string]string `json:"params,omitempty"`
	Seed      uint64            `json:"seed"` // VERIF_SEED
	Run       int               `json:"run"`
	RunSeed   uint64            `json:"run_seed"`
	Tape      []uint32          `json:"tape"`
	Case      json.RawMessage   `json:"case"` // materialised, generator-independent
	EventHash string            `json:"event_hash"`
	Minimised bool              `json:"minimised"`
	MinExecs  int               `json:"minimiser_executions"`
	OrigTape  int               `json:"original_tape_len"`
}

// RunOpt is what a leg passes to every run.
type RunOpt struct {
	Tier   string            `json:"tier"`
	Leg    string            `json:"leg"`
	Params map[string]string `json:"params,omitempty"`
}

func (o RunOpt) P(k string) string { return o.Params[k] }

// Engine is one property's simulation.
type Engine interface {
	ID() string
	// Run generates and executes the run decided by t.
	Run(t *Tape, opt RunOpt, agg *Agg) *Violation
	// ReplayCase executes a materialised case (from a replay file) without
	// going through the generator.
	ReplayCase(raw json.RawMessage, opt RunOpt, agg *Agg) (*Violation, error)
}

var engines = map[string]Engine{}

func Register(e Engine) { engines[e.ID()] = e }
func Lookup(id string) (Engine, error) {
	e, ok := engines[id]
	if !ok {
		return nil, fmt.Errorf("no engine for property %q", id)
	}
	return e, nil
}

// InfraError is returned/raised for anything that is the harness's fault:
// exit status 2, never a VIOLATION line.
type InfraError struct{ Msg string }

func (e *InfraError) Error() string { return e.Msg }
func Infra(format string, a ...any) *InfraError {
	return &InfraError{Msg: fmt.Sprintf(format, a...)}
}
