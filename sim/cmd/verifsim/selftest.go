package main

import (
	"encoding/json"
	"flag"
	"fmt"
	"os"
	"os/exec"
	"path/filepath"
	"strconv"
	"strings"

	"verifsim/core"
)

// selftestDeterminism: the same run seeds executed in separate processes at
// GOMAXPROCS 1, 4 and 16, with 1 and 16 workers (i.e. with different
// neighbouring runs in the same process), must produce identical event-log
// hashes and consume identical numbers of draws. A two-run diff is not
// considered enough: every configuration below is a fresh set of processes.
func selftestDeterminism(args []string) int {
	fs := flag.NewFlagSet("selftest-determinism", flag.ExitOnError)
	seeds := fs.Int("seeds", 48, "run seeds per engine")
	props := fs.String("props", "C06,C11,C16,C19", "")
	raceBin := fs.String("race-bin", "", "")
	fs.Parse(args)
	self, _ := os.Executable()
	dir, _ := os.MkdirTemp(core.ScratchDir(), "determinism-")
	defer os.RemoveAll(dir)
	type cfg struct {
		name    string
		bin     string
		procs   int
		workers int
	}
	cfgs := []cfg{{"p1-w1", self, 1, 1}, {"p1-w16", self, 1, 16}, {"p4-w3", self, 4, 3}, {"p16-w16", self, 16, 16}, {"p16-w1-again", self, 16, 1}, {"p1-w16-again", self, 1, 16}}
	if *raceBin != "" {
		cfgs = append(cfgs, cfg{"race-p1-w8", *raceBin, 1, 8}, cfg{"race-p8-w5", *raceBin, 8, 5})
	}
	bad := 0
	result := map[string]any{}
	for _, prop := range strings.Split(*props, ",") {
		ref := map[string]string{}
		refName := ""
		processes := 0
		for _, c := range cfgs {
			got := map[string]string{}
			for k := 0; k < c.workers; k++ {
				hf := filepath.Join(dir, fmt.Sprintf("%s-%s-%d", prop, c.name, k))
				opt, _ := json.Marshal(core.RunOpt{Tier: "quick", Leg: "selftest"})
				cmd := exec.Command(c.bin, "worker", "--prop", prop, "--opt", string(opt), "--seed", "7", "--start", strconv.Itoa(k), "--stride", strconv.Itoa(c.workers),
					"--count", strconv.Itoa(*seeds), "--hashes", hf)
				cmd.Env = append(os.Environ(), "VERIFSIM_GOMAXPROCS="+strconv.Itoa(c.procs))
				if out, err := cmd.CombinedOutput(); err != nil {
					fmt.Printf("selftest: %s %s worker %d failed: %v\n%.2000s\n", prop, c.name, k, err, out)
					return 2
				}
				processes++
				b, _ := os.ReadFile(hf)
				for _, ln := range strings.Split(strings.TrimSpace(string(b)), "\n") {
					f := strings.Fields(ln)
					if len(f) == 3 {
						got[f[0]] = f[1] + "/" + f[2]
					}
				}
			}
			if len(got) != *seeds {
				fmt.Printf("selftest: %s %s: %d of %d runs reported\n", prop, c.name, len(got), *seeds)
				return 2
			}
			if refName == "" {
				ref, refName = got, c.name
				continue
			}
			for idx, h := range got {
				if ref[idx] != h {
					fmt.Printf("NONDETERMINISM: %s run %s: %s in %s but %s in %s\n", prop, idx, ref[idx], refName, h, c.name)
					bad++
				}
			}
		}
		fmt.Printf("selftest: %s: %d run seeds x %d configurations (%d processes): %s\n", prop, *seeds, len(cfgs), processes, map[bool]string{true: "identical event logs", false: "DIVERGED"}[bad == 0])
		result[prop] = map[string]any{"run_seeds": *seeds, "configurations": len(cfgs), "processes": processes, "divergences": bad}
	}
	b, _ := json.MarshalIndent(result, "", " ")
	os.WriteFile(filepath.Join(core.VerifRoot(), "selftest", "determinism_result.json"), append(b, '\n'), 0o644)
	if bad > 0 {
		return 1
	}
	return 0
}
