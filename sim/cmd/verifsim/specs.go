package main

import (
	"fmt"
	"time"

	"verifsim/c06"
	"verifsim/c11"
	"verifsim/c16"
	"verifsim/c19"
	"verifsim/core"
)

func buildSpec(id, tier string, seed uint64, raceBin, realBin string) (*core.CheckSpec, error) {
	switch id {
	case "C19":
		return c19.Spec(tier, seed), nil
	case "C06":
		return c06.Spec(tier, seed, realBin), nil
	case "C11":
		return c11.Spec(tier, seed, raceBin), nil
	case "C16":
		return c16.Spec(tier, seed, raceBin), nil
	}
	return nil, fmt.Errorf("property %s has no check (see MANIFEST.json not_applicable)", id)
}

var _ = time.Second
