// verifsim: deterministic simulation of gogreement. Subcommands:
//
//	run <ID> --tier quick|thorough    controller: fan out, merge, minimise, report
//	worker ...                        one worker process (internal)
//	replay <file>                     re-execute a replay file in a fresh process
package main

import (
	"encoding/json"
	"flag"
	"fmt"
	"os"
	"runtime"
	"strconv"
	"time"

	"verifsim/core"
	"verifsim/sched"
)

func seedFromEnv() uint64 {
	s := os.Getenv("VERIF_SEED")
	if s == "" {
		return 1
	}
	v, err := strconv.ParseUint(s, 10, 64)
	if err != nil {
		if i, err2 := strconv.ParseInt(s, 10, 64); err2 == nil {
			return uint64(i)
		}
		fmt.Fprintf(os.Stderr, "verifsim: bad VERIF_SEED %q\n", s)
		os.Exit(2)
	}
	return v
}

func main() {
	if len(os.Args) < 2 {
		fmt.Fprintln(os.Stderr, "usage: verifsim run|worker|replay ...")
		os.Exit(2)
	}
	core.IsRaceBuild = sched.RaceBuild
	switch os.Args[1] {
	case "exec":
		if len(os.Args) < 3 {
			os.Exit(2)
		}
		os.Exit(core.ExecMain(os.Args[2]))
	case "worker":
		fs := flag.NewFlagSet("worker", flag.ExitOnError)
		prop := fs.String("prop", "", "")
		optJSON := fs.String("opt", "{}", "")
		seed := fs.Uint64("seed", 1, "")
		start := fs.Int("start", 0, "")
		stride := fs.Int("stride", 1, "")
		count := fs.Int("count", 1, "")
		offset := fs.Int("offset", 0, "")
		deadline := fs.Int64("deadline", 0, "")
		progress := fs.String("progress", "", "")
		hashFile := fs.String("hashes", "", "")
		fs.Parse(os.Args[2:])
		e, err := core.Lookup(*prop)
		if err != nil {
			fmt.Fprintln(os.Stderr, err)
			os.Exit(2)
		}
		var opt core.RunOpt
		if err := json.Unmarshal([]byte(*optJSON), &opt); err != nil {
			fmt.Fprintln(os.Stderr, err)
			os.Exit(2)
		}
		var dl time.Time
		if *deadline > 0 {
			dl = time.Unix(*deadline, 0)
		}
		procs := 1 // one task runs at a time; hand-offs stay on one thread
		if v, err := strconv.Atoi(os.Getenv("VERIFSIM_GOMAXPROCS")); err == nil && v > 0 {
			procs = v // the determinism self-test varies this
		}
		runtime.GOMAXPROCS(procs)
		core.WorkerMain(e, opt, *seed, *start, *stride, *count, *offset, dl, *progress, *hashFile)
	case "selftest-determinism":
		os.Exit(selftestDeterminism(os.Args[2:]))
	case "replay":
		if len(os.Args) < 3 {
			fmt.Fprintln(os.Stderr, "usage: verifsim replay <file>")
			os.Exit(2)
		}
		os.Exit(core.ReplayMain(os.Args[2]))
	case "run":
		fs := flag.NewFlagSet("run", flag.ExitOnError)
		tier := fs.String("tier", "quick", "")
		raceBin := fs.String("race-bin", "", "")
		realBin := fs.String("real-bin", "", "")
		if len(os.Args) < 3 {
			fmt.Fprintln(os.Stderr, "usage: verifsim run <ID> [--tier t]")
			os.Exit(2)
		}
		id := os.Args[2]
		fs.Parse(os.Args[3:])
		if *tier != "quick" && *tier != "thorough" {
			fmt.Fprintln(os.Stderr, "verifsim: tier must be quick or thorough")
			os.Exit(2)
		}
		spec, err := buildSpec(id, *tier, seedFromEnv(), *raceBin, *realBin)
		if err != nil {
			fmt.Fprintln(os.Stderr, "verifsim: INFRASTRUCTURE:", err)
			os.Exit(2)
		}
		os.Exit(core.RunCheck(spec))
	default:
		fmt.Fprintln(os.Stderr, "verifsim: unknown subcommand", os.Args[1])
		os.Exit(2)
	}
}
