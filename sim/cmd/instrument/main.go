// instrument copies gogreement's working tree to a scratch directory and
// inserts the simulator's seams by text edits at AST-located offsets:
//
//   - simrt.Yield(site) as the first statement of every function body, function
//     literal body and for/range body (preemption points);
//   - simrt.NoYield(+1/-1) around Lock/Unlock and (*sync.Once).Do, so that a
//     task is never parked while it holds a lock;
//   - per package a generated reset function that re-evaluates the
//     initialisers of all package-level variables (except *analysis.Analyzer
//     values, whose identity the driver relies on), registered with simrt, so
//     that one OS process can play many simulated processes;
//   - the package src/simrt itself.
//
// Nothing is written to the source tree. Standard library only.
package main

import (
	"encoding/json"
	"flag"
	"fmt"
	"go/ast"
	"go/parser"
	"go/token"
	"io/fs"
	"os"
	"path/filepath"
	"sort"
	"strings"
)

type edit struct {
	off  int
	text string
	ord  int
}

type site struct {
	ID   int    `json:"id"`
	File string `json:"file"`
	Line int    `json:"line"`
	Kind string `json:"kind"`
}

var sites []site

// files whose every statement is a preemption point (not only function,
// closure and loop entries): used where torn multi-statement updates of a
// shared structure matter (C16's IgnoreSet)
var stmtFiles = map[string]bool{}
var mapRangeCandidates []string

const simrtImport = `github.com/a14e/gogreement/src/simrt`

func main() {
	src := flag.String("src", "/repo", "")
	dst := flag.String("dst", "", "")
	stmt := flag.String("stmt-files", "", "comma-separated files (relative to the repository root) that get a yield before every statement")
	flag.Parse()
	for _, f := range strings.Split(*stmt, ",") {
		if f != "" {
			stmtFiles[f] = true
		}
	}
	if *dst == "" {
		fatal("need -dst")
	}
	if err := os.MkdirAll(*dst, 0o755); err != nil {
		fatal("%v", err)
	}
	for _, f := range []string{"go.mod", "go.sum"} {
		copyFile(filepath.Join(*src, f), filepath.Join(*dst, f))
	}
	for _, top := range []string{"src", "cmd"} {
		root := filepath.Join(*src, top)
		filepath.WalkDir(root, func(p string, d fs.DirEntry, err error) error {
			if err != nil {
				fatal("%v", err)
			}
			rel, _ := filepath.Rel(*src, p)
			if d.IsDir() {
				if d.Name() == "testdata" || d.Name() == "testutil" || d.Name() == "simrt" {
					return filepath.SkipDir
				}
				return nil
			}
			if !strings.HasSuffix(p, ".go") || strings.HasSuffix(p, "_test.go") {
				return nil
			}
			out := filepath.Join(*dst, rel)
			os.MkdirAll(filepath.Dir(out), 0o755)
			if top == "src" {
				instrumentFile(p, rel, out)
			} else {
				copyFile(p, out)
			}
			return nil
		})
	}
	// simrt
	rt := filepath.Join(*dst, "src", "simrt")
	os.MkdirAll(rt, 0o755)
	if err := os.WriteFile(filepath.Join(rt, "simrt.go"), []byte(simrtSrc), 0o644); err != nil {
		fatal("%v", err)
	}
	b, _ := json.MarshalIndent(map[string]any{"sites": sites, "range_statements": mapRangeCandidates}, "", " ")
	os.WriteFile(filepath.Join(*dst, "sim-sites.json"), b, 0o644)
	fmt.Printf("instrument: %d yield sites, %d range statements listed\n", len(sites), len(mapRangeCandidates))
}

func fatal(f string, a ...any) {
	fmt.Fprintf(os.Stderr, "instrument: "+f+"\n", a...)
	os.Exit(2)
}

func copyFile(a, b string) {
	data, err := os.ReadFile(a)
	if err != nil {
		fatal("%v", err)
	}
	os.MkdirAll(filepath.Dir(b), 0o755)
	if err := os.WriteFile(b, data, 0o644); err != nil {
		fatal("%v", err)
	}
}

func instrumentFile(path, rel, out string) {
	data, err := os.ReadFile(path)
	if err != nil {
		fatal("%v", err)
	}
	fset := token.NewFileSet()
	f, err := parser.ParseFile(fset, path, data, parser.ParseComments|parser.SkipObjectResolution)
	if err != nil {
		fatal("parse %s: %v", path, err)
	}
	tf := fset.File(f.Pos())
	off := func(p token.Pos) int { return tf.Offset(p) }
	var edits []edit
	add := func(o int, text string) { edits = append(edits, edit{o, text, len(edits)}) }
	newSite := func(p token.Pos, kind string) int {
		id := len(sites) + 1
		sites = append(sites, site{id, rel, fset.Position(p).Line, kind})
		return id
	}
	yieldAt := func(lbrace token.Pos, kind string) {
		add(off(lbrace)+1, fmt.Sprintf(" simrt.Yield(%d);", newSite(lbrace, kind)))
	}
	isCall := func(e ast.Expr, names ...string) (*ast.CallExpr, string) {
		c, ok := e.(*ast.CallExpr)
		if !ok {
			return nil, ""
		}
		sel, ok := c.Fun.(*ast.SelectorExpr)
		if !ok {
			return nil, ""
		}
		for _, n := range names {
			if sel.Sel.Name == n {
				return c, n
			}
		}
		return nil, ""
	}
	stmtLevel := stmtFiles[rel]
	yieldBefore := func(list []ast.Stmt) {
		if !stmtLevel {
			return
		}
		for i, st := range list {
			if i == 0 {
				continue // the block entry already yields (or belongs to a case clause: handled below)
			}
			switch st.(type) {
			case *ast.LabeledStmt, *ast.CaseClause, *ast.CommClause:
				continue
			}
			add(off(st.Pos()), fmt.Sprintf("simrt.Yield(%d); ", newSite(st.Pos(), "stmt")))
		}
	}
	ast.Inspect(f, func(n ast.Node) bool {
		switch x := n.(type) {
		case *ast.BlockStmt:
			yieldBefore(x.List)
		case *ast.CaseClause:
			if stmtLevel && len(x.Body) > 0 {
				add(off(x.Body[0].Pos()), fmt.Sprintf("simrt.Yield(%d); ", newSite(x.Body[0].Pos(), "case")))
			}
			yieldBefore(x.Body)
		case *ast.IfStmt:
			if stmtLevel && len(x.Body.List) > 0 {
				add(off(x.Body.Lbrace)+1, fmt.Sprintf(" simrt.Yield(%d);", newSite(x.Body.Lbrace, "if-body")))
			}
		case *ast.FuncDecl:
			if x.Body != nil {
				yieldAt(x.Body.Lbrace, "func "+x.Name.Name)
			}
		case *ast.FuncLit:
			yieldAt(x.Body.Lbrace, "funclit")
		case *ast.ForStmt:
			yieldAt(x.Body.Lbrace, "for")
		case *ast.RangeStmt:
			yieldAt(x.Body.Lbrace, "range")
			mapRangeCandidates = append(mapRangeCandidates, fmt.Sprintf("%s:%d: range %s", rel, fset.Position(x.Pos()).Line, exprText(data, tf, x.X)))
		case *ast.ExprStmt:
			if c, name := isCall(x.X, "Lock", "RLock"); c != nil && len(c.Args) == 0 {
				_ = name
				add(off(x.End()), "; simrt.NoYield(1)")
			} else if c, _ := isCall(x.X, "Unlock", "RUnlock"); c != nil && len(c.Args) == 0 {
				add(off(x.Pos()), "simrt.NoYield(-1); ")
			} else if c, _ := isCall(x.X, "Do"); c != nil && len(c.Args) == 1 {
				add(off(x.Pos()), "simrt.NoYield(1); ")
				add(off(x.End()), "; simrt.NoYield(-1)")
			}
		case *ast.DeferStmt:
			if c, _ := isCall(x.Call, "Unlock", "RUnlock"); c != nil && len(c.Args) == 0 {
				add(off(x.Call.Pos()), "func() { simrt.NoYield(-1); ")
				add(off(x.Call.End()), " }()")
			}
		}
		return true
	})

	// reset function for package-level variables
	var reset strings.Builder
	for _, d := range f.Decls {
		gd, ok := d.(*ast.GenDecl)
		if !ok || gd.Tok != token.VAR {
			continue
		}
		for _, sp := range gd.Specs {
			vs := sp.(*ast.ValueSpec)
			if isAnalyzerValue(vs) {
				continue
			}
			names := make([]string, len(vs.Names))
			allBlank := true
			for i, n := range vs.Names {
				names[i] = n.Name
				if n.Name != "_" {
					allBlank = false
				}
			}
			if allBlank {
				continue
			}
			switch {
			case len(vs.Values) == len(vs.Names):
				for i, v := range vs.Values {
					if names[i] == "_" {
						continue
					}
					if _, isFunc := v.(*ast.FuncLit); isFunc {
						continue
					}
					fmt.Fprintf(&reset, "\t%s = %s\n", names[i], exprText(data, tf, v))
				}
			case len(vs.Values) == 1:
				fmt.Fprintf(&reset, "\t%s = %s\n", strings.Join(names, ", "), exprText(data, tf, vs.Values[0]))
			case len(vs.Values) == 0 && vs.Type != nil:
				for _, n := range names {
					if n != "_" {
						fmt.Fprintf(&reset, "\t%s = *new(%s)\n", n, exprText(data, tf, vs.Type))
					}
				}
			}
		}
	}
	// the processor count the code under test sees is a seam, too: runtime.GOMAXPROCS(n) and
	// runtime.NumCPU() are wrapped (insert-only, the original call stays) in simrt.Procs(...)
	ast.Inspect(f, func(n ast.Node) bool {
		if g, ok := n.(*ast.GoStmt); ok {
			// goroutines started by the code under test are not tasks of the cooperative
			// scheduler: while any is alive no yield point hands control to the scheduler
			// (neither theirs nor the parent's), so that stretch is one scheduling step. A
			// goroutine whose end cannot be bracketed (go f(x)) switches yields off for the
			// rest of the execution.
			add(off(g.Pos()), "simrt.Foreign(1); ")
			if fl, ok := g.Call.Fun.(*ast.FuncLit); ok {
				add(off(fl.Body.Lbrace)+1, " defer simrt.Foreign(-1);")
			}
			return true
		}
		c, ok := n.(*ast.CallExpr)
		if !ok {
			return true
		}
		if sel, ok := c.Fun.(*ast.SelectorExpr); ok {
			if x, ok := sel.X.(*ast.Ident); ok && x.Name == "runtime" && (sel.Sel.Name == "GOMAXPROCS" || sel.Sel.Name == "NumCPU") {
				add(off(c.Pos()), "simrt.Procs(")
				add(off(c.End()), ")")
			}
		}
		return true
	})
	tail := ""
	if reset.Len() > 0 {
		fn := "simResetVars_" + sanitize(filepath.Base(rel))
		tail = fmt.Sprintf("\n\nfunc %s() {\n%s}\n\nfunc init() { simrt.RegisterReset(%q, %s) }\n", fn, reset.String(), rel, fn)
	}
	if len(edits) == 0 && tail == "" {
		if err := os.WriteFile(out, data, 0o644); err != nil {
			fatal("%v", err)
		}
		return
	}
	// import, right after the package clause line
	pkgLineEnd := off(f.Name.End())
	add(pkgLineEnd, "; import simrt \""+simrtImport+"\"")

	sort.SliceStable(edits, func(i, j int) bool {
		if edits[i].off != edits[j].off {
			return edits[i].off < edits[j].off
		}
		return edits[i].ord < edits[j].ord
	})
	var b strings.Builder
	last := 0
	for _, e := range edits {
		b.Write(data[last:e.off])
		b.WriteString(e.text)
		last = e.off
	}
	b.Write(data[last:])
	b.WriteString(tail)
	if err := os.WriteFile(out, []byte(b.String()), 0o644); err != nil {
		fatal("%v", err)
	}
}

func sanitize(s string) string {
	return strings.Map(func(r rune) rune {
		if r >= 'a' && r <= 'z' || r >= 'A' && r <= 'Z' || r >= '0' && r <= '9' {
			return r
		}
		return '_'
	}, s)
}

func exprText(data []byte, tf *token.File, e ast.Node) string {
	return string(data[tf.Offset(e.Pos()):tf.Offset(e.End())])
}

// isAnalyzerValue: `var X = &analysis.Analyzer{...}` (identity matters).
func isAnalyzerValue(vs *ast.ValueSpec) bool {
	for _, v := range vs.Values {
		if u, ok := v.(*ast.UnaryExpr); ok && u.Op == token.AND {
			if cl, ok := u.X.(*ast.CompositeLit); ok {
				if sel, ok := cl.Type.(*ast.SelectorExpr); ok && sel.Sel.Name == "Analyzer" {
					return true
				}
			}
		}
	}
	return false
}

const simrtSrc = `// Package simrt is generated by /verif/sim/cmd/instrument into the scratch
// copy only. With Hook == nil (the default) every call is a no-op.
package simrt

import "sync/atomic"

// Hook is called at every yield point while a simulated schedule is active.
var Hook func(site int)

var depth int

type reset struct {
	name string
	f    func()
}

var resets []reset

// foreign counts live goroutines started by the code under test (see Foreign).
var foreign int32

// foreignSeen counts go statements executed by the code under test since process start.
var foreignSeen int32

//go:norace
func ForeignSeen() int32 { return atomic.LoadInt32(&foreignSeen) }

// Foreign(+1) before a go statement of the code under test, Foreign(-1) when that goroutine ends.
//
//go:norace
func Foreign(d int32) {
	if d > 0 {
		atomic.AddInt32(&foreignSeen, 1)
	}
	for {
		v := atomic.LoadInt32(&foreign)
		n := v + d
		if n < 0 {
			n = 0
		}
		if atomic.CompareAndSwapInt32(&foreign, v, n) {
			return
		}
	}
}

//go:norace
func Yield(site int) {
	if atomic.LoadInt32(&foreign) != 0 {
		return
	}
	if h := Hook; h != nil && depth == 0 {
		h(site)
	}
}

// SimProcs, when > 0, is the processor count the code under test sees during the current
// simulated execution (set by the harness between executions only).
var SimProcs int

//go:norace
func Procs(real int) int {
	if SimProcs > 0 {
		return SimProcs
	}
	return real
}

// NoYield brackets regions in which the running task holds a lock.
//
//go:norace
func NoYield(d int) { depth += d }

//go:norace
func ResetDepth() { depth = 0; atomic.StoreInt32(&foreign, 0) }

func RegisterReset(name string, f func()) { resets = append(resets, reset{name, f}) }

// ResetAll re-evaluates the initialisers of all package-level variables of
// the instrumented packages: the state of a freshly started process.
func ResetAll() {
	depth = 0
	atomic.StoreInt32(&foreign, 0)
	for _, r := range resets {
		r.f()
	}
}

func ResetNames() []string {
	var out []string
	for _, r := range resets {
		out = append(out, r.name)
	}
	return out
}
`
