package driver

import (
	"fmt"
	"go/types"
	"os"
	"path/filepath"
	"strings"

	"golang.org/x/tools/go/analysis/checker"
	"golang.org/x/tools/go/packages"

	"github.com/a14e/gogreement/src/analyzer"

	"verifsim/world"
)

// WriteModule writes the world as a Go module under dir (which becomes the
// module root) so that the real drivers can load it.
func WriteModule(w *world.World, dir string) error {
	if err := os.MkdirAll(dir, 0o755); err != nil {
		return err
	}
	if err := os.WriteFile(filepath.Join(dir, "go.mod"), []byte("module "+w.Module+"\n\ngo 1.25\n"), 0o644); err != nil {
		return err
	}
	for i := range w.Pkgs {
		p := &w.Pkgs[i]
		d := filepath.Join(dir, w.Dir(p))
		if err := os.MkdirAll(d, 0o755); err != nil {
			return err
		}
		for _, f := range p.Files {
			if err := os.WriteFile(filepath.Join(d, f.Name), []byte(f.Src), 0o644); err != nil {
				return err
			}
		}
	}
	return nil
}

// RunRealChecker hands the loaded world to the real x/tools in-process driver
// (checker.Analyze). Its schedule is not ours: this is a validation leg, not
// simulation. The world's files must exist on the real disk under simRoot.
func RunRealChecker(l *Loaded, roots []string, sequential, sanity bool) (*Outcome, error) {
	if err := ApplyConfig(l.World.Cfg); err != nil {
		return nil, err
	}
	conv := map[*LPkg]*packages.Package{}
	var mk func(lp *LPkg) *packages.Package
	mk = func(lp *LPkg) *packages.Package {
		if p, ok := conv[lp]; ok {
			return p
		}
		p := &packages.Package{
			ID: lp.ID, Name: lp.Name, PkgPath: lp.Path,
			GoFiles: lp.FileNames, CompiledGoFiles: lp.FileNames,
			Syntax: lp.Files, Types: lp.Types, TypesInfo: lp.Info, Fset: l.Fset,
			TypesSizes: types.SizesFor("gc", "amd64"),
			Imports:    map[string]*packages.Package{},
			Module:     &packages.Module{Path: l.World.Module},
		}
		conv[lp] = p
		if lp.Index < 0 {
			p.Module = nil // "unsafe"
		}
		for path, dep := range lp.Imports {
			p.Imports[path] = mk(dep)
		}
		return p
	}
	var pkgs []*packages.Package
	for _, r := range roots {
		i := l.World.Index(r)
		if i < 0 {
			return nil, fmt.Errorf("unknown root %s", r)
		}
		pkgs = append(pkgs, mk(l.Plain[i]))
		if l.Test[i] != nil {
			pkgs = append(pkgs, mk(l.Test[i]))
		}
		if l.XTest[i] != nil {
			pkgs = append(pkgs, mk(l.XTest[i]))
		}
	}
	g, err := checker.Analyze(analyzer.AllAnalyzers(), pkgs, &checker.Options{Sequential: sequential, SanityCheck: sanity})
	if err != nil {
		return nil, err
	}
	out := NewOutcome()
	for _, act := range g.Roots {
		path := act.Package.ID
		if _, ok := out.Diags[path]; !ok {
			out.Diags[path] = nil
		}
		if act.Err != nil {
			out.Errors[path] = append(out.Errors[path], fmt.Sprintf("%s: %v", act.Analyzer.Name, act.Err))
		}
		for _, d := range act.Diagnostics {
			pos := l.Fset.Position(d.Pos)
			out.Diags[path] = append(out.Diags[path], Diag{act.Analyzer.Name, strings.TrimPrefix(pos.Filename, simRoot), pos.Line, pos.Column, RelMsg(d.Message), DiagRest(l.Fset, d)})
		}
	}
	out.Normalise()
	return out, nil
}
