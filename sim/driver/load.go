// Package driver holds the simulated drivers: checker-sim (the in-process
// driver of `gogreement ./...`, modelled on x/tools go/analysis/checker) and
// vet-sim (one unit per package with export data and fact files, modelled on
// `go vet -vettool` + unitchecker), both running every analyzer action as a
// task of the seeded scheduler.
package driver

import (
	"fmt"
	"go/ast"
	"go/parser"
	"go/token"
	"go/types"
	"sort"
	"strings"
	"time"

	"golang.org/x/tools/go/analysis"

	"verifsim/world"
)

// simRoot is where world files live: on the simulated disk by default; the
// real-driver validation legs point it at a scratch directory on the real disk.
var simRoot = "/sim/w/"

// SetRoot changes the directory world files are named under (must end in "/").
func SetRoot(r string) (old string) { old, simRoot = simRoot, r; return }

// FileName is the name a world file has on the simulated disk.
func FileName(w *world.World, p *world.Pkg, f world.File) string {
	return simRoot + w.Dir(p) + "/" + f.Name
}

// LPkg is one loaded package variant (what packages.Package is to the real driver).
type LPkg struct {
	ID        string // import path, or "path [path.test]" for the test variant
	Path      string
	Name      string
	Index     int // index in the world
	TestVar   bool
	Files     []*ast.File
	FileNames []string
	Types     *types.Package
	Info      *types.Info
	Imports   map[string]*LPkg // by import path (plain variants)
	IllTyped  bool
}

type Loaded struct {
	World *world.World
	Fset  *token.FileSet
	Plain []*LPkg // by world index
	Test  []*LPkg // by world index; nil if the package has no _test.go file
	XTest []*LPkg // by world index; the external test package, nil if none
	Disk  map[string][]byte
	// ReadFaults: file name -> fault applied to every pass.ReadFile of it in
	// checker-sim ("eio", "empty", "short:<n>", "edited:<new content>"). Used
	// by the C19 pipeline leg; nil everywhere else.
	ReadFaults map[string]string
	// ReadLog records what the disk served (or that it failed) per reading action.
	ReadLog []ReadEvent
}

type ReadEvent struct {
	Action string
	File   string
	Data   []byte
	Failed bool
}

func newInfo() *types.Info {
	return &types.Info{
		Types:        make(map[ast.Expr]types.TypeAndValue),
		Defs:         make(map[*ast.Ident]types.Object),
		Uses:         make(map[*ast.Ident]types.Object),
		Implicits:    make(map[ast.Node]types.Object),
		Instances:    make(map[*ast.Ident]types.Instance),
		Scopes:       make(map[ast.Node]*types.Scope),
		Selections:   make(map[*ast.SelectorExpr]*types.Selection),
		FileVersions: make(map[*ast.File]string),
	}
}

type importerFunc func(path string) (*types.Package, error)

func (f importerFunc) Import(path string) (*types.Package, error) { return f(path) }

// Disk materialises the world's files on the simulated disk.
func Disk(w *world.World) map[string][]byte {
	d := map[string][]byte{}
	for i := range w.Pkgs {
		p := &w.Pkgs[i]
		for _, f := range p.Files {
			d[FileName(w, p, f)] = []byte(f.Src)
		}
	}
	return d
}

// LoadAll parses and type-checks the whole world from source with one shared
// FileSet - what go/packages.Load(LoadAllSyntax) gives the standalone driver.
// A world that does not type-check is a generator bug.
func LoadAll(w *world.World) (*Loaded, error) { return LoadAllOrder(w, 0) }

// LoadFor loads what `gogreement <roots>` loads: the named packages and their
// transitive dependencies, nothing else - so the shared FileSet holds only
// their files (a package of the world that is neither is simply not there).
func LoadFor(w *world.World, parseSeed uint64, roots []string) (*Loaded, error) {
	need := map[int]bool{}
	for _, r := range roots {
		if i := w.Index(r); i >= 0 {
			need[i] = true
			for _, j := range w.TransitiveDeps(i) {
				need[j] = true
			}
		}
	}
	return loadSubset(w, parseSeed, need)
}

// WorldFaults maps the world's read faults to file names on the disk.
func WorldFaults(w *world.World) map[string]string {
	if w.Faults == nil {
		return nil
	}
	out := map[string]string{}
	for i := range w.Pkgs {
		p := &w.Pkgs[i]
		for _, f := range p.Files {
			if k, ok := w.Faults[p.Path+"|"+f.Name]; ok {
				out[FileName(w, p, f)] = k
			}
		}
	}
	return out
}

// ApplyReadFault turns the bytes on disk into what a faulty read returns.
func ApplyReadFault(kind string, name string, b []byte) ([]byte, error) {
	switch {
	case kind == "eio":
		return nil, fmt.Errorf("read %s: input/output error", name)
	case kind == "stall":
		// a slow disk: the bytes are right, they just take a while (130 ms of real
		// time - the one place where the simulation waits; no decision depends on it)
		time.Sleep(130 * time.Millisecond)
		return b, nil
	case kind == "empty":
		return nil, nil
	case strings.HasPrefix(kind, "short:"):
		n := 0
		fmt.Sscanf(kind, "short:%d", &n)
		if n < len(b) {
			return b[:n], nil
		}
	case strings.HasPrefix(kind, "edited:"):
		return []byte(kind[len("edited:"):]), nil
	}
	return b, nil
}

// LoadAllOrder is LoadAll with a seeded PARSE order: go/packages parses the
// files of all packages concurrently into one FileSet, so which file gets
// which position base varies from run to run, while every package still lists
// its files in directory order. parseSeed 0 = listed order.
func LoadAllOrder(w *world.World, parseSeed uint64) (*Loaded, error) {
	return loadSubset(w, parseSeed, nil)
}

// RelMsg removes the root directory from file names that a message text mentions: like the
// position of a diagnostic, such a name is absolute in one driver and relative in another
// (and lives under a different root in each leg); which form a driver prints is not a
// difference between diagnostics.
func RelMsg(msg string) string {
	if simRoot == "" || !strings.Contains(msg, simRoot) {
		return msg
	}
	return strings.ReplaceAll(msg, simRoot, "")
}

// GoListOrder returns the files of p in the order both real drivers hand them to an
// analyzer (go list: GoFiles sorted by name, then TestGoFiles, then XTestGoFiles), whatever
// order the generator emitted them in. An analysis whose result depends on this order is
// not thereby driver- or schedule-dependent: no driver named by the properties varies it.
func GoListOrder(p *world.Pkg) []world.File {
	out := append([]world.File(nil), p.Files...)
	rank := func(f world.File) int {
		switch {
		case f.Name == world.ExtTestFile:
			return 2
		case strings.HasSuffix(f.Name, "_test.go"):
			return 1
		}
		return 0
	}
	sort.SliceStable(out, func(i, j int) bool {
		if ri, rj := rank(out[i]), rank(out[j]); ri != rj {
			return ri < rj
		}
		return out[i].Name < out[j].Name
	})
	return out
}

func loadSubset(w *world.World, parseSeed uint64, need map[int]bool) (*Loaded, error) {
	l := &Loaded{World: w, Fset: token.NewFileSet(), Disk: Disk(w), ReadFaults: WorldFaults(w)}
	// parse everything first, in the seeded order
	type pf struct{ name string }
	var all []string
	for i := range w.Pkgs {
		if need != nil && !need[i] {
			continue
		}
		p := &w.Pkgs[i]
		for _, f := range p.Files {
			all = append(all, FileName(w, p, f))
		}
	}
	if parseSeed != 0 {
		x := parseSeed
		next := func() uint64 {
			x += 0x9E3779B97F4A7C15
			z := x
			z = (z ^ (z >> 30)) * 0xBF58476D1CE4E5B9
			z = (z ^ (z >> 27)) * 0x94D049BB133111EB
			return z ^ (z >> 31)
		}
		for i := len(all) - 1; i > 0; i-- {
			j := int(next() % uint64(i+1))
			all[i], all[j] = all[j], all[i]
		}
	}
	parsed := map[string]*ast.File{}
	for _, name := range all {
		af, err := parser.ParseFile(l.Fset, name, l.Disk[name], parser.ParseComments)
		if err != nil {
			return nil, fmt.Errorf("generated world does not parse: %v", err)
		}
		parsed[name] = af
	}
	l.Plain = make([]*LPkg, len(w.Pkgs))
	l.Test = make([]*LPkg, len(w.Pkgs))
	l.XTest = make([]*LPkg, len(w.Pkgs))
	byPath := map[string]*LPkg{"unsafe": unsafeLPkg()}
	for i := range w.Pkgs {
		if need != nil && !need[i] {
			continue
		}
		p := &w.Pkgs[i]
		for _, variant := range []bool{false, true} {
			if variant && !p.HasTestFiles() {
				continue
			}
			lp := &LPkg{ID: p.Path, Path: p.Path, Name: p.Name, Index: i, TestVar: variant, Imports: map[string]*LPkg{}, Info: newInfo()}
			if variant {
				lp.ID = fmt.Sprintf("%s [%s.test]", p.Path, p.Path)
			}
			for _, f := range GoListOrder(p) {
				if f.Name == world.ExtTestFile || (strings.HasSuffix(f.Name, "_test.go") && !variant) {
					continue
				}
				name := FileName(w, p, f)
				af := parsed[name] // the plain and the test variant share the syntax trees, as in go/packages
				lp.Files = append(lp.Files, af)
				lp.FileNames = append(lp.FileNames, name)
			}
			tc := &types.Config{
				Importer: importerFunc(func(path string) (*types.Package, error) {
					if dep, ok := byPath[path]; ok {
						lp.Imports[path] = dep
						return dep.Types, nil
					}
					return nil, fmt.Errorf("world package %s imports unknown %q", p.Path, path)
				}),
				Sizes: types.SizesFor("gc", "amd64"),
			}
			tp, err := tc.Check(p.Path, l.Fset, lp.Files, lp.Info)
			if err != nil {
				return nil, fmt.Errorf("generated world does not type-check: %v", err)
			}
			lp.Types = tp
			if variant {
				l.Test[i] = lp
			} else {
				l.Plain[i] = lp
				byPath[p.Path] = lp
			}
		}
		if p.HasExtTest() {
			// package <name>_test: its import of p resolves to the test variant of p
			base := l.Plain[i]
			if l.Test[i] != nil {
				base = l.Test[i]
			}
			xp := &LPkg{ID: fmt.Sprintf("%s_test [%s.test]", p.Path, p.Path), Path: p.Path + "_test", Name: p.Name + "_test", Index: i, TestVar: true, Imports: map[string]*LPkg{}, Info: newInfo()}
			for _, f := range GoListOrder(p) {
				if f.Name == world.ExtTestFile {
					name := FileName(w, p, f)
					xp.Files = append(xp.Files, parsed[name])
					xp.FileNames = append(xp.FileNames, name)
				}
			}
			tc := &types.Config{
				Importer: importerFunc(func(path string) (*types.Package, error) {
					if path == p.Path {
						xp.Imports[path] = base
						return base.Types, nil
					}
					if dep, ok := byPath[path]; ok {
						xp.Imports[path] = dep
						return dep.Types, nil
					}
					return nil, fmt.Errorf("external test of %s imports unknown %q", p.Path, path)
				}),
				Sizes: types.SizesFor("gc", "amd64"),
			}
			tp, err := tc.Check(xp.Path, l.Fset, xp.Files, xp.Info)
			if err != nil {
				return nil, fmt.Errorf("generated world does not type-check: %v", err)
			}
			xp.Types = tp
			l.XTest[i] = xp
		}
	}
	return l, nil
}

// ModuleOf returns (path, version) of the module package i belongs to.
func ModuleOf(w *world.World, i int) (string, string) {
	if p := &w.Pkgs[i]; p.ModPath != "" {
		return p.ModPath, p.ModVersion
	}
	return w.Module, ""
}

// unsafeLPkg: what go/packages hands the standalone driver for "unsafe": a
// package without syntax, on which fact-carrying analyzers still run.
func unsafeLPkg() *LPkg {
	return &LPkg{ID: "unsafe", Path: "unsafe", Name: "unsafe", Index: -1, Types: types.Unsafe, Info: newInfo(), Imports: map[string]*LPkg{}}
}

// Diag is one normalised diagnostic.
type Diag struct {
	Analyzer string `json:"analyzer"`
	File     string `json:"file"`
	Line     int    `json:"line"`
	Col      int    `json:"col"`
	Msg      string `json:"msg"`
	// Rest: whatever else the diagnostic carries that a user sees (end position,
	// related information, suggested fixes), rendered canonically; "" if nothing
	Rest string `json:"rest,omitempty"`
}

func (d Diag) Key() string {
	return fmt.Sprintf("%s\x00%s\x00%d\x00%d\x00%s\x00%s", d.Analyzer, d.File, d.Line, d.Col, d.Msg, d.Rest)
}

// DiagRest renders the parts of a diagnostic beyond position and message.
func DiagRest(fset *token.FileSet, d analysis.Diagnostic) string {
	var b strings.Builder
	where := func(p token.Pos) string {
		q := fset.Position(p)
		return fmt.Sprintf("%s:%d:%d", strings.TrimPrefix(q.Filename, simRoot), q.Line, q.Column)
	}
	// (the end position is not part of what either real driver prints, so it is left out)
	for _, r := range d.Related {
		fmt.Fprintf(&b, "related=%s %q;", where(r.Pos), r.Message)
	}
	if len(d.SuggestedFixes) > 0 {
		fmt.Fprintf(&b, "fixes=%d;", len(d.SuggestedFixes))
	}
	if d.Category != "" {
		fmt.Fprintf(&b, "category=%s;", d.Category)
	}
	return b.String()
}

// Outcome of one execution: per import path the sorted, de-duplicated
// diagnostics of all its variants, plus action errors.
type Outcome struct {
	Diags  map[string][]Diag   `json:"diags"`
	Errors map[string][]string `json:"errors"`
	// Actions[i] names the action that emitted the i-th diagnostic in emission
	// order (before Normalise sorts Diags); only checker-sim fills it, only the
	// C19 pipeline leg reads it via RawDiags.
	Actions  []string `json:"-"`
	RawDiags []Diag   `json:"-"`
}

// SimRoot returns the directory prefix of world files.
func SimRoot() string { return simRoot }

func NewOutcome() *Outcome {
	return &Outcome{Diags: map[string][]Diag{}, Errors: map[string][]string{}}
}

// MergeVariants folds "p [p.test]" into "p" (and "p_test [p.test]" into
// "p_test"), identical entries de-duplicated. The standalone driver analyses
// and reports both the plain package and its test variant; `go vet` analyses
// only the test variant when there is one and reports it under the plain ID -
// so ACROSS drivers only the merged view is comparable (C06). Within one
// driver the per-ID view is kept (C11).
func (o *Outcome) MergeVariants() *Outcome {
	m := NewOutcome()
	strip := func(id string) string {
		if i := strings.Index(id, " ["); i >= 0 {
			return id[:i]
		}
		return id
	}
	for id, ds := range o.Diags {
		k := strip(id)
		m.Diags[k] = append(m.Diags[k], ds...)
	}
	for id, es := range o.Errors {
		k := strip(id)
		for _, e := range es {
			dup := false
			for _, x := range m.Errors[k] {
				if x == e {
					dup = true
				}
			}
			if !dup {
				m.Errors[k] = append(m.Errors[k], e)
			}
		}
	}
	m.Actions, m.RawDiags = o.Actions, o.RawDiags
	m.Normalise()
	return m
}

func (o *Outcome) Normalise() {
	for p, ds := range o.Diags {
		seen := map[string]bool{}
		var out []Diag
		for _, d := range ds {
			if !seen[d.Key()] {
				seen[d.Key()] = true
				out = append(out, d)
			}
		}
		sort.Slice(out, func(i, j int) bool { return out[i].Key() < out[j].Key() })
		o.Diags[p] = out
	}
	for p, es := range o.Errors {
		sort.Strings(es)
		o.Errors[p] = es
		// a panicking action takes the whole process down in the real drivers;
		// what the stubs salvage around it is not comparable: keep only the panic
		var panics []string
		for _, e := range es {
			if strings.Contains(e, ": panic: ") {
				panics = append(panics, e)
			}
		}
		if len(panics) > 0 {
			o.Errors[p] = panics
			o.Diags[p] = nil
		}
	}
}

// PkgString renders one package's outcome canonically (the unit of comparison).
func (o *Outcome) PkgString(path string) string {
	var b strings.Builder
	for _, d := range o.Diags[path] {
		fmt.Fprintf(&b, "%s %s:%d:%d %q", d.Analyzer, d.File, d.Line, d.Col, d.Msg)
		if d.Rest != "" {
			fmt.Fprintf(&b, " {%s}", d.Rest)
		}
		b.WriteByte('\n')
	}
	for _, e := range o.Errors[path] {
		fmt.Fprintf(&b, "ERROR %s\n", e)
	}
	return b.String()
}
