package driver

import (
	"bytes"
	"encoding/gob"
	"fmt"
	"go/types"
	"reflect"
	"sort"
	"strings"

	"golang.org/x/tools/go/analysis"

	"github.com/a14e/gogreement/src/analyzer"
	"github.com/a14e/gogreement/src/simrt"

	"verifsim/sched"
	"verifsim/world"
)

// Yield sites of the driver seam (negative so they never collide with the
// instrumenter's).
const (
	siteImportFact = -1
	siteExportFact = -2
	siteReport     = -3
	siteReadFile   = -4
	siteActionEnd  = -5
)

// Exec describes how one execution is driven.
type Exec struct {
	Driver    string   `json:"driver"`    // checker | vet
	Transport string   `json:"transport"` // share (T1) | gob (T2) | files (T3, vet only)
	Roots     []string `json:"roots"`     // import paths named on the command line, in order
	Sched     sched.Config
	StallFile string `json:"stall_file,omitempty"` // the first read of this file stalls (slow disk) in this execution
	ParseSeed uint64 `json:"parse_seed,omitempty"` // checker: seeded parse order of the files (0 = listed order)
	Rerun     int    `json:"rerun"`                // vet: index of a unit executed twice (cache miss), -1 = none
	Fork      bool   `json:"fork"`
}

// ApplyConfig sets gogreement's flags the way the command line would and
// resets process-wide state: the simulated process starts here.
func ApplyConfig(cfg world.Config) error {
	simrt.Hook = nil
	simrt.ResetAll()
	fs := &analyzer.ConfigReader.Flags
	st := "false"
	if cfg.ScanTests {
		st = "true"
	}
	if err := fs.Set("scan-tests", st); err != nil {
		return err
	}
	if err := fs.Set("exclude-paths", cfg.ExcludePaths); err != nil {
		return err
	}
	return fs.Set("exclude-checks", cfg.ExcludeChecks)
}

type factKey struct {
	pkg *types.Package
	typ reflect.Type
}

type action struct {
	a       *analysis.Analyzer
	pkg     *LPkg
	isRoot  bool
	deps    []*action
	task    *sched.Task
	result  any
	err     error
	diags   []analysis.Diagnostic
	pfacts  map[factKey]analysis.Fact
	pass    *analysis.Pass
	visited bool
}

func (act *action) String() string { return fmt.Sprintf("%s@%s", act.a.Name, act.pkg.ID) }

// Stats of one execution.
type ExecStats struct {
	Sched                sched.Stats
	Actions              int
	FactsShared          int
	FactsEncoded         int
	FactImports          int
	Reports              int
	Reads                int
	Units                int
	LatentFactMismatch   int
	Stalls               int
	StallFile            string // the first read of this file stalls in this execution
	stalled              bool
	FactImportHits       int
	AllPackageFactsCalls int
}

// bump increments a counter from inside a task. The counters are harness
// bookkeeping shared by all tasks, so the race detector must not see them.
//
//go:norace
func (st *ExecStats) bump(p *int) { *p++ }

//go:norace
func (st *ExecStats) takeStall(name string) bool {
	if st.StallFile == "" || st.stalled || name != st.StallFile {
		return false
	}
	st.stalled = true
	st.Stalls++
	return true
}

// RunChecker executes the standalone driver over the loaded world.
func RunChecker(l *Loaded, ex *Exec, ch sched.Chooser) (*Outcome, *ExecStats, error) {
	if err := ApplyConfig(l.World.Cfg); err != nil {
		return nil, nil, err
	}
	analyzers := analyzer.AllAnalyzers()
	if err := analysis.Validate(analyzers); err != nil {
		return nil, nil, fmt.Errorf("analysis.Validate: %v", err)
	}
	s := sched.New(ch, ex.Sched)
	st := &ExecStats{StallFile: ex.StallFile}
	type key struct {
		a   *analysis.Analyzer
		pkg *LPkg
	}
	actions := map[key]*action{}
	var order []*action
	var mk func(a *analysis.Analyzer, pkg *LPkg) *action
	mk = func(a *analysis.Analyzer, pkg *LPkg) *action {
		k := key{a, pkg}
		if act, ok := actions[k]; ok {
			return act
		}
		act := &action{a: a, pkg: pkg}
		actions[k] = act
		for _, req := range a.Requires {
			act.deps = append(act.deps, mk(req, pkg))
		}
		if len(a.FactTypes) > 0 {
			paths := make([]string, 0, len(pkg.Imports))
			for p := range pkg.Imports {
				paths = append(paths, p)
			}
			sort.Strings(paths)
			for _, p := range paths {
				act.deps = append(act.deps, mk(a, pkg.Imports[p]))
			}
		}
		order = append(order, act) // DFS postorder = the order of the sequential driver
		return act
	}
	// roots: every variant of every named package, as `gogreement pkgs...` with -test=true loads them
	var rootPkgs []*LPkg
	for _, path := range ex.Roots {
		i := l.World.Index(path)
		if i < 0 {
			return nil, nil, fmt.Errorf("unknown root %s", path)
		}
		rootPkgs = append(rootPkgs, l.Plain[i])
		if l.Test[i] != nil {
			rootPkgs = append(rootPkgs, l.Test[i])
		}
		if l.XTest[i] != nil {
			rootPkgs = append(rootPkgs, l.XTest[i])
		}
	}
	for _, a := range analyzers {
		for _, p := range rootPkgs {
			mk(a, p).isRoot = true
		}
	}
	gobTransport := ex.Transport == "gob"
	for _, act := range order {
		act := act
		act.task = s.Add(act.String(), func() { execAction(l, act, gobTransport, st) })
	}
	for _, act := range order {
		for _, d := range act.deps {
			act.task.DependsOn(d.task)
		}
	}
	st.Actions = len(order)
	simrt.Hook = s.Yield
	st.Sched = s.Run()
	simrt.Hook = nil

	out := NewOutcome()
	for _, act := range order {
		if act.task.Panic != nil {
			out.Errors[act.pkg.ID] = append(out.Errors[act.pkg.ID], fmt.Sprintf("%s: panic: %v", act.a.Name, act.task.Panic))
			continue
		}
		if !act.isRoot {
			continue
		}
		if _, ok := out.Diags[act.pkg.ID]; !ok {
			out.Diags[act.pkg.ID] = nil
		}
		if act.err != nil {
			out.Errors[act.pkg.ID] = append(out.Errors[act.pkg.ID], fmt.Sprintf("%s: %v", act.a.Name, act.err))
		}
		for _, d := range act.diags {
			pos := l.Fset.Position(d.Pos)
			out.Diags[act.pkg.ID] = append(out.Diags[act.pkg.ID], Diag{act.a.Name, strings.TrimPrefix(pos.Filename, simRoot), pos.Line, pos.Column, RelMsg(d.Message), DiagRest(l.Fset, d)})
			out.Actions = append(out.Actions, act.String())
			out.RawDiags = append(out.RawDiags, Diag{act.a.Name, strings.TrimPrefix(pos.Filename, simRoot), pos.Line, pos.Column, RelMsg(d.Message), DiagRest(l.Fset, d)})
		}
	}
	out.Normalise()
	return out, st, nil
}

// codeFact is checker.codeFact: encode twice (determinism), decode into a fresh value.
func codeFact(fact analysis.Fact) (analysis.Fact, error) {
	var buf bytes.Buffer
	if err := gob.NewEncoder(&buf).Encode(fact); err != nil {
		return nil, err
	}
	var buf2 bytes.Buffer
	if err := gob.NewEncoder(&buf2).Encode(fact); err != nil {
		return nil, err
	}
	if !bytes.Equal(buf.Bytes(), buf2.Bytes()) {
		return nil, fmt.Errorf("encoding of %T fact is nondeterministic", fact)
	}
	nw := reflect.New(reflect.TypeOf(fact).Elem()).Interface().(analysis.Fact)
	if err := gob.NewDecoder(&buf).Decode(nw); err != nil {
		return nil, err
	}
	return nw, nil
}

// execAction is checker.(*Action).execOnce without the recursion (the
// scheduler has already run the dependencies).
func execAction(l *Loaded, act *action, gobTransport bool, st *ExecStats) {
	var failed []string
	for _, dep := range act.deps {
		if dep.err != nil || dep.task.Panic != nil {
			failed = append(failed, dep.String())
		}
	}
	if failed != nil {
		sort.Strings(failed)
		act.err = fmt.Errorf("failed prerequisites: %s", strings.Join(failed, ", "))
		return
	}
	inputs := map[*analysis.Analyzer]any{}
	act.pfacts = map[factKey]analysis.Fact{}
	for _, dep := range act.deps {
		if dep.pkg == act.pkg {
			inputs[dep.a] = dep.result
		} else if dep.a == act.a {
			// inheritFacts: ALL package facts of the dependency, hence transitively visible
			keys := make([]factKey, 0, len(dep.pfacts))
			for k := range dep.pfacts {
				keys = append(keys, k)
			}
			sort.Slice(keys, func(i, j int) bool {
				if keys[i].pkg.Path() != keys[j].pkg.Path() {
					return keys[i].pkg.Path() < keys[j].pkg.Path()
				}
				return keys[i].typ.String() < keys[j].typ.String()
			})
			for _, k := range keys {
				fact := dep.pfacts[k]
				if gobTransport {
					enc, err := codeFact(fact)
					if err != nil {
						panic(fmt.Sprintf("internal error: encoding of %T fact failed in %v: %v", fact, act, err))
					}
					if !reflect.DeepEqual(normFact(enc), normFact(fact)) {
						st.bump(&st.LatentFactMismatch)
					}
					fact = enc
					st.bump(&st.FactsEncoded)
				} else {
					st.bump(&st.FactsShared)
				}
				act.pfacts[k] = fact
			}
		}
	}
	names := map[string]bool{}
	for _, n := range act.pkg.FileNames {
		names[n] = true
	}
	pass := &analysis.Pass{
		Analyzer:   act.a,
		Fset:       l.Fset,
		Files:      act.pkg.Files,
		Pkg:        act.pkg.Types,
		TypesInfo:  act.pkg.Info,
		TypesSizes: types.SizesFor("gc", "amd64"),
		Module:     moduleFor(l.World, act.pkg.Index),
		ResultOf:   inputs,
		Report: func(d analysis.Diagnostic) {
			simrt.Yield(siteReport)
			st.bump(&st.Reports)
			act.diags = append(act.diags, d)
		},
		ImportObjectFact: func(obj types.Object, f analysis.Fact) bool { return false },
		ExportObjectFact: func(obj types.Object, f analysis.Fact) {},
		AllObjectFacts:   func() []analysis.ObjectFact { return nil },
		ImportPackageFact: func(pkg *types.Package, ptr analysis.Fact) bool {
			simrt.Yield(siteImportFact)
			if pkg == nil {
				panic("nil package")
			}
			st.bump(&st.FactImports)
			if v, ok := act.pfacts[factKey{pkg, reflect.TypeOf(ptr)}]; ok {
				reflect.ValueOf(ptr).Elem().Set(reflect.ValueOf(v).Elem())
				st.bump(&st.FactImportHits)
				return true
			}
			return false
		},
		AllPackageFacts: func() []analysis.PackageFact {
			keys := make([]factKey, 0, len(act.pfacts))
			for k := range act.pfacts {
				keys = append(keys, k)
			}
			sort.Slice(keys, func(i, j int) bool {
				return keys[i].pkg.Path()+keys[i].typ.String() < keys[j].pkg.Path()+keys[j].typ.String()
			})
			var out []analysis.PackageFact
			for _, k := range keys {
				out = append(out, analysis.PackageFact{Package: k.pkg, Fact: act.pfacts[k]})
			}
			st.bump(&st.AllPackageFactsCalls)
			return out
		},
	}
	pass.ExportPackageFact = func(fact analysis.Fact) {
		simrt.Yield(siteExportFact)
		if pass.ExportPackageFact == nil {
			panic(fmt.Sprintf("%s: Pass.ExportPackageFact(%T) called after Run", act, fact))
		}
		act.pfacts[factKey{act.pkg.Types, reflect.TypeOf(fact)}] = fact
	}
	pass.ReadFile = func(name string) ([]byte, error) {
		simrt.Yield(siteReadFile)
		st.bump(&st.Reads)
		if !names[name] {
			return nil, fmt.Errorf("Pass.ReadFile: %s is not among OtherFiles, IgnoredFiles, or names of Files", name)
		}
		b, ok := l.Disk[name]
		if !ok {
			return nil, fmt.Errorf("open %s: no such file or directory", name)
		}
		b = append([]byte(nil), b...)
		if st.takeStall(name) {
			b, _ = ApplyReadFault("stall", name, b)
		}
		if f, ok := l.ReadFaults[name]; ok {
			var err error
			if b, err = ApplyReadFault(f, name, b); err != nil {
				l.logRead(act.String(), name, nil, true)
				return nil, err
			}
		}
		if l.ReadFaults != nil {
			l.logRead(act.String(), name, b, false)
		}
		return b, nil
	}
	act.pass = pass
	result, err := act.a.Run(pass)
	if err == nil {
		if got, want := reflect.TypeOf(result), act.a.ResultType; got != want {
			err = fmt.Errorf("internal error: on package %s, analyzer %s returned a result of type %v, but declared ResultType %v", pass.Pkg.Path(), act.a, got, want)
		}
	}
	if err != nil {
		act.err = err
	} else {
		act.result = result
	}
	pass.ExportPackageFact = nil
	simrt.Yield(siteActionEnd)
}

func moduleFor(w *world.World, idx int) *analysis.Module {
	if idx < 0 {
		return &analysis.Module{} // "unsafe"
	}
	p, v := ModuleOf(w, idx)
	return &analysis.Module{Path: p, Version: v}
}

//go:norace
func (l *Loaded) logRead(action, file string, data []byte, failed bool) {
	l.ReadLog = append(l.ReadLog, ReadEvent{action, file, append([]byte(nil), data...), failed})
}

// normFact makes nil and empty slices compare equal (gob does not keep the difference).
func normFact(f analysis.Fact) any {
	v := reflect.ValueOf(f)
	if v.Kind() == reflect.Pointer {
		v = v.Elem()
	}
	return normValue(v).Interface()
}

func normValue(v reflect.Value) reflect.Value {
	switch v.Kind() {
	case reflect.Struct:
		out := reflect.New(v.Type()).Elem()
		for i := 0; i < v.NumField(); i++ {
			if out.Field(i).CanSet() {
				out.Field(i).Set(normValue(v.Field(i)))
			}
		}
		return out
	case reflect.Slice:
		out := reflect.MakeSlice(v.Type(), v.Len(), v.Len())
		for i := 0; i < v.Len(); i++ {
			out.Index(i).Set(normValue(v.Index(i)))
		}
		return out
	}
	return v
}
