package driver

import (
	"bytes"
	"encoding/gob"
	"fmt"
	"go/ast"
	"go/parser"
	"go/token"
	"go/types"
	"reflect"
	"sort"
	"strings"

	"golang.org/x/tools/go/analysis"
	"golang.org/x/tools/go/gcexportdata"

	"github.com/a14e/gogreement/src/analyzer"
	"github.com/a14e/gogreement/src/simrt"

	"verifsim/sched"
	"verifsim/third_party/xfacts"
	"verifsim/world"
)

// unit is one `go vet` action: one package variant, analysed by a fresh
// "process" that sees its imports only as export data plus fact files.
type unit struct {
	idx      int
	testVar  bool // the package recompiled with its in-package _test.go files
	xtest    bool // the external test package (package <name>_test)
	vetxOnly bool
}

// VetState is what survives between units: the simulated disk with export
// data and fact (vetx) files. Nothing else does.
type VetState struct {
	Export map[string][]byte // import path -> export data
	Vetx   map[string][]byte // import path -> encoded facts
	// the same for the test variant "p [p.test]": only p's external test package reads these
	ExportTest map[string][]byte
	VetxTest   map[string][]byte
}

// RunVet executes `go vet -vettool=gogreement <roots>` in simulation.
// order is a seeded topological order of the units; ch drives the schedule
// inside each unit.
func RunVet(w *world.World, ex *Exec, ch sched.Chooser) (*Outcome, *ExecStats, error) {
	st := &ExecStats{}
	out := NewOutcome()
	disk := Disk(w)
	faults := WorldFaults(w)
	state := &VetState{Export: map[string][]byte{}, Vetx: map[string][]byte{}, ExportTest: map[string][]byte{}, VetxTest: map[string][]byte{}}

	// the run set: roots plus all their transitive dependencies (VetxOnly)
	isRoot := map[int]bool{}
	needed := map[int]bool{}
	for _, r := range ex.Roots {
		i := w.Index(r)
		if i < 0 {
			return nil, nil, fmt.Errorf("unknown root %s", r)
		}
		isRoot[i] = true
		needed[i] = true
		for _, j := range w.TransitiveDeps(i) {
			needed[j] = true
		}
	}
	// units in a topological order drawn from the tape: the go command runs
	// independent vet actions in any order
	var units []unit
	done := map[int]bool{}
	for len(done) < len(needed) {
		var ready []int
		for i := range w.Pkgs {
			if !needed[i] || done[i] {
				continue
			}
			ok := true
			for _, ip := range w.Pkgs[i].Imports {
				if j := w.Index(ip); j >= 0 && !done[j] {
					ok = false
				}
			}
			if ok {
				ready = append(ready, i)
			}
		}
		if len(ready) == 0 {
			return nil, nil, fmt.Errorf("import cycle in world")
		}
		i := ready[ch.Draw(len(ready))]
		done[i] = true
		// `go vet` vets "p [p.test]" INSTEAD of p when p has in-package test files; plain p
		// is then analysed only for its facts (and only because something may import it)
		hasVariant := isRoot[i] && w.Pkgs[i].HasTestFiles()
		units = append(units, unit{idx: i, vetxOnly: !isRoot[i] || hasVariant})
		if hasVariant {
			units = append(units, unit{idx: i, testVar: true})
		}
		if isRoot[i] && w.Pkgs[i].HasExtTest() {
			units = append(units, unit{idx: i, xtest: true})
		}
	}
	for k, u := range units {
		reps := 1
		if ex.Rerun == k {
			reps = 2 // a build-cache miss: the unit is executed again before its importers run
		}
		for r := 0; r < reps; r++ {
			if err := runUnit(w, u, disk, faults, state, ex, ch, st, out); err != nil {
				return nil, nil, err
			}
		}
	}
	out.Normalise()
	return out, st, nil
}

func runUnit(w *world.World, u unit, disk map[string][]byte, faults map[string]string, state *VetState, ex *Exec, ch sched.Chooser, st *ExecStats, out *Outcome) error {
	// a fresh process
	if err := ApplyConfig(w.Cfg); err != nil {
		return err
	}
	st.Units++
	p := &w.Pkgs[u.idx]
	fset := token.NewFileSet()
	var files []*ast.File
	names := map[string]bool{}
	pkgPath := p.Path
	if u.xtest {
		pkgPath += "_test"
	}
	outID := pkgPath // outcomes are keyed by package ID, as the real drivers' -json trees are
	if u.xtest || u.testVar {
		outID = fmt.Sprintf("%s [%s.test]", pkgPath, p.Path)
	}
	for _, f := range GoListOrder(p) {
		isExt := f.Name == world.ExtTestFile
		if u.xtest != isExt || (strings.HasSuffix(f.Name, "_test.go") && !u.testVar && !u.xtest) {
			continue
		}
		name := FileName(w, p, f)
		af, err := parser.ParseFile(fset, name, disk[name], parser.ParseComments)
		if err != nil {
			return fmt.Errorf("vet-sim: parse: %v", err)
		}
		files = append(files, af)
		names[name] = true
	}
	imports := map[string]*types.Package{}
	tc := &types.Config{
		Importer: importerFunc(func(path string) (*types.Package, error) {
			if path == "unsafe" {
				return types.Unsafe, nil // never compiled, never vetted: no export data, no fact file
			}
			data, ok := state.Export[path]
			if u.xtest && path == p.Path {
				if dt, okt := state.ExportTest[path]; okt {
					data, ok = dt, true // the go command hands the test variant to the external test package
				}
			}
			if !ok {
				return nil, fmt.Errorf("no package file for %q", path)
			}
			return gcexportdata.Read(bytes.NewReader(data), fset, imports, path)
		}),
		Sizes: types.SizesFor("gc", "amd64"),
	}
	info := newInfo()
	pkg, err := tc.Check(pkgPath, fset, files, info)
	if err != nil {
		return fmt.Errorf("vet-sim: type-check of %s against export data: %v", pkgPath, err)
	}
	if !u.xtest {
		var buf bytes.Buffer
		if err := gcexportdata.Write(&buf, fset, pkg); err != nil {
			return fmt.Errorf("vet-sim: export data: %v", err)
		}
		if u.testVar {
			state.ExportTest[p.Path] = buf.Bytes()
		} else {
			state.Export[p.Path] = buf.Bytes()
		}
	}

	analyzers := analyzer.AllAnalyzers()
	type vact struct {
		a         *analysis.Analyzer
		usesFacts bool
		task      *sched.Task
		result    any
		err       error
		diags     []analysis.Diagnostic
	}
	acts := map[*analysis.Analyzer]*vact{}
	var registerFacts func(a *analysis.Analyzer) bool
	var order []*vact
	registerFacts = func(a *analysis.Analyzer) bool {
		act, ok := acts[a]
		if !ok {
			act = &vact{a: a}
			acts[a] = act
			uses := false
			for _, f := range a.FactTypes {
				uses = true
				gob.Register(f)
			}
			for _, req := range a.Requires {
				if registerFacts(req) {
					uses = true
				}
			}
			act.usesFacts = uses
			order = append(order, act)
		}
		return act.usesFacts
	}
	var roots []*analysis.Analyzer
	for _, a := range analyzers {
		if registerFacts(a) || !u.vetxOnly {
			roots = append(roots, a)
		}
	}
	facts, err := xfacts.NewDecoder(pkg).Decode(func(path string) ([]byte, error) {
		if u.xtest && path == p.Path {
			if dt, ok := state.VetxTest[path]; ok {
				return dt, nil
			}
		}
		return state.Vetx[path], nil
	})
	if err != nil {
		// the real unitchecker fails the unit
		out.Errors[outID] = append(out.Errors[outID], "unit failed: "+err.Error())
		return nil
	}
	// which actions run: the roots and their prerequisites
	runs := map[*vact]bool{}
	var mark func(a *analysis.Analyzer)
	mark = func(a *analysis.Analyzer) {
		if runs[acts[a]] {
			return
		}
		runs[acts[a]] = true
		for _, r := range a.Requires {
			mark(r)
		}
	}
	for _, a := range roots {
		mark(a)
	}
	s := sched.New(ch, ex.Sched)
	for _, act := range order {
		if !runs[act] {
			continue
		}
		act := act
		act.task = s.Add(act.a.Name+"@"+pkgPath, func() {
			inputs := map[*analysis.Analyzer]any{}
			var failed []string
			for _, req := range act.a.Requires {
				ra := acts[req]
				if ra.err != nil || ra.task.Panic != nil {
					failed = append(failed, req.String())
					continue
				}
				inputs[req] = ra.result
			}
			if failed != nil {
				sort.Strings(failed)
				act.err = fmt.Errorf("failed prerequisites: %s", strings.Join(failed, ", "))
				return
			}
			factFilter := map[reflect.Type]bool{}
			for _, f := range act.a.FactTypes {
				factFilter[reflect.TypeOf(f)] = true
			}
			pass := &analysis.Pass{
				Analyzer:   act.a,
				Fset:       fset,
				Files:      files,
				Pkg:        pkg,
				TypesInfo:  info,
				TypesSizes: tc.Sizes,
				ResultOf:   inputs,
				Module:     moduleFor(w, u.idx),
				Report: func(d analysis.Diagnostic) {
					simrt.Yield(siteReport)
					st.bump(&st.Reports)
					act.diags = append(act.diags, d)
				},
				ImportObjectFact: facts.ImportObjectFact,
				ExportObjectFact: facts.ExportObjectFact,
				AllObjectFacts:   func() []analysis.ObjectFact { return facts.AllObjectFacts(factFilter) },
				ImportPackageFact: func(pk *types.Package, f analysis.Fact) bool {
					simrt.Yield(siteImportFact)
					st.bump(&st.FactImports)
					ok := facts.ImportPackageFact(pk, f)
					if ok {
						st.bump(&st.FactImportHits)
					}
					return ok
				},
				ExportPackageFact: func(f analysis.Fact) {
					simrt.Yield(siteExportFact)
					facts.ExportPackageFact(f)
				},
				AllPackageFacts: func() []analysis.PackageFact {
					st.bump(&st.AllPackageFactsCalls)
					return facts.AllPackageFacts(factFilter)
				},
			}
			pass.ReadFile = func(name string) ([]byte, error) {
				simrt.Yield(siteReadFile)
				st.bump(&st.Reads)
				if !names[name] {
					return nil, fmt.Errorf("Pass.ReadFile: %s is not among OtherFiles, IgnoredFiles, or names of Files", name)
				}
				b, ok := disk[name]
				if !ok {
					return nil, fmt.Errorf("open %s: no such file or directory", name)
				}
				b = append([]byte(nil), b...)
				if f, ok := faults[name]; ok {
					return ApplyReadFault(f, name, b)
				}
				return b, nil
			}
			act.result, act.err = act.a.Run(pass)
			simrt.Yield(siteActionEnd)
		})
	}
	for _, act := range order {
		if act.task == nil {
			continue
		}
		for _, req := range act.a.Requires {
			act.task.DependsOn(acts[req].task)
		}
	}
	simrt.Hook = s.Yield
	ss := s.Run()
	simrt.Hook = nil
	st.Sched.Steps += ss.Steps
	st.Sched.Switches += ss.Switches
	st.Sched.Preemptions += ss.Preemptions
	st.Sched.TraceHash = st.Sched.TraceHash*1099511628211 ^ ss.TraceHash
	if st.Sched.SitePairs == nil {
		st.Sched.SitePairs = map[[2]int]int{}
	}
	for k, v := range ss.SitePairs {
		st.Sched.SitePairs[k] += v
	}
	st.Actions += len(s.Tasks())

	// facts of this unit go to its vetx file; only the plain variant's file is read by importers
	func() {
		defer func() {
			if r := recover(); r != nil {
				out.Errors[outID] = append(out.Errors[outID], fmt.Sprintf("fact encoding failed: %v", r))
			}
		}()
		data := facts.Encode()
		st.FactsEncoded++
		switch {
		case u.xtest:
		case u.testVar:
			state.VetxTest[p.Path] = data
		default:
			state.Vetx[p.Path] = data
		}
	}()
	for _, act := range order {
		if act.task == nil {
			continue
		}
		if act.task.Panic != nil {
			out.Errors[outID] = append(out.Errors[outID], fmt.Sprintf("%s: panic: %v", act.a.Name, act.task.Panic))
			continue
		}
		if u.vetxOnly {
			continue
		}
		isRootAnalyzer := false
		for _, r := range roots {
			if r == act.a {
				isRootAnalyzer = true
			}
		}
		if !isRootAnalyzer {
			continue
		}
		if _, ok := out.Diags[outID]; !ok {
			out.Diags[outID] = nil
		}
		if act.err != nil {
			out.Errors[outID] = append(out.Errors[outID], fmt.Sprintf("%s: %v", act.a.Name, act.err))
		}
		for _, d := range act.diags {
			pos := fset.Position(d.Pos)
			out.Diags[outID] = append(out.Diags[outID], Diag{act.a.Name, strings.TrimPrefix(pos.Filename, simRoot), pos.Line, pos.Column, RelMsg(d.Message), DiagRest(fset, d)})
		}
	}
	return nil
}
